(* C17 -- the deferred-sort TICKET protocol of moss.

   Definitions only (the proofs are in SortProtoFacts.v).

   segment.readyDeferredSort (segment.go) gives a segment two channels:
     needSorterCh  buffered, holds ONE [true] ticket, then closed
     waitSortedCh  unbuffered, never sent on; closed once = a latch
   A segment that was sorted before publication has both channels nil.
   segment.RequestSort / segmentStack.ensureSorted are the only users.

   Part 1: an IR for this goroutine code.  The Go tool [harness/sortscan]
           translates the CURRENT segment.go / segment_stack.go into terms of
           this IR (SortTable.v); the C17 check proves them equal to
           [request_sort_prog] / [ensure_sorted_prog] below.
   Part 2: an executable small-step interleaving semantics: any number of
           goroutines (a function nat -> gst), any number of segments (a
           function nat -> sst), one step of one goroutine at a time.  The
           write section of [doSort] is two steps (begin / end) so that
           overlap is observable.  Ghost state: [s_holder] (who received the
           ticket), [g_known] (the segments whose sort this goroutine is
           ordered after by happens-before) and [s_latch_hb] (what the close
           of waitSortedCh publishes).
           Go memory model facts used:
             - a receive of the value sent before the close happens-after the
               send (the ticket carries no information about the sort);
             - a receive that returns because the channel is closed
               happens-after the close: the receiver learns what the closer
               knew ([s_latch_hb]);
             - program order.
   Part 3: a bounded explorer (breadth first over all schedules, visited set)
           used as the SEARCH when the generated programs are not the proved
           ones. *)

From Coq Require Import List Bool Arith ZArith NArith Lia FMapPositive.
Import ListNotations.

(* ------------------------------------------------------------------ *)
(* Part 1: IR                                                          *)

Inductive chan := NeedSorter | WaitSorted.

Inductive cond :=
| CNil (c : chan)        (* a.<c> == nil *)
| CVar                   (* the boolean local (iAmTheSorter) *)
| CSync.                 (* the argument [synchronous] *)

Inductive stmt :=
| SIf (c : cond) (th el : list stmt)
| SRecvVar (c : chan)    (* v := <-a.<c> *)
| SRecv (c : chan)       (* <-a.<c> *)
| SClose (c : chan)      (* close(a.<c>) *)
| SDoSort                (* a.doSort(): begin write; end write *)
| SReturn (b : bool).

(* RequestSort(synchronous bool) bool, segment.go *)
Definition rs_sorter := [SDoSort; SClose WaitSorted; SReturn true].
Definition rs_waiter := [SRecv WaitSorted; SReturn true].
Definition rs_tail4 := [SReturn false].
Definition rs_tail3 := SIf CSync rs_waiter [] :: rs_tail4.
Definition rs_tail2 := SIf CVar rs_sorter [] :: rs_tail3.
Definition rs_tail1 := SRecvVar NeedSorter :: rs_tail2.
Definition request_sort_prog : list stmt :=
  SIf (CNil NeedSorter) [SReturn true] [] :: rs_tail1.

(* ensureSorted(minSeg, maxSeg int), segment_stack.go *)
Inductive base := BMin | BMax.
Record bound := mk_bound { b_base : base; b_off : Z }.

Inductive acc :=
| AccShort     (* sorted = sorted && RequestSort(..): Go does not call once sorted is false *)
| AccEager     (* sorted = RequestSort(..) && sorted *)
| AccAssign    (* sorted = RequestSort(..) *)
| AccDrop.     (* RequestSort(..) *)

(* for seg := <init>; seg >= <lim> (or >); seg-- { <acc> ss.a[seg].RequestSort(<sync>) } *)
Record loop := mk_loop {
  l_init : bound; l_strict : bool; l_lim : bound; l_sync : bool; l_acc : acc }.

Inductive estmt :=
| EGuard                           (* if ss.options == nil || !ss.options.DeferredSort { return } *)
| ESetSorted (b : bool)            (* sorted := b *)
| ELoop (l : loop)
| EIf (neg : bool) (body : list estmt).   (* if !sorted {..} (neg = true) / if sorted {..} *)

Definition es_loop1 := mk_loop (mk_bound BMax 0) false (mk_bound BMin 0) false AccShort.
Definition es_loop2 := mk_loop (mk_bound BMax 0) false (mk_bound BMin 0) true AccDrop.
Definition es_tail3 := [EIf true [ELoop es_loop2]].
Definition es_tail2 := ELoop es_loop1 :: es_tail3.
Definition es_tail1 := ESetSorted true :: es_tail2.
Definition ensure_sorted_prog : list estmt := EGuard :: es_tail1.

(* where doSort() is called from (every call site in the non-test sources) *)
Inductive dosort_site :=
| DSRequestSort        (* segment.RequestSort: the ticket holder *)
| DSBatchRecursive     (* batch.doSort: b.segment.doSort() / childBatch.doSort() *)
| DSNotDeferred        (* else-branch of `if m.options.DeferredSort`: before publication, channels nil *)
| DSOther (in_go : bool).  (* anywhere else *)

Definition dosort_sites_expected :=
  [DSNotDeferred; DSRequestSort; DSBatchRecursive; DSBatchRecursive].

Definition site_is_rogue (d : dosort_site) : bool :=
  match d with DSOther _ => true | _ => false end.

Record progs := mk_progs { p_rs : list stmt; p_es : list estmt; p_rogue : bool }.

Definition current_progs := mk_progs request_sort_prog ensure_sorted_prog false.

Definition progs_of (rs : list stmt) (es : list estmt) (sites : list dosort_site) :=
  mk_progs rs es (existsb site_is_rogue sites).

(* ------------------------------------------------------------------ *)
(* Part 2: semantics                                                   *)

Definition upd {A : Type} (f : nat -> A) (i : nat) (v : A) : nat -> A :=
  fun j => if Nat.eqb j i then v else f j.

Inductive viol :=
| VWriteWrite (s g : nat)       (* g enters the write section of s while somebody is inside *)
| VWriteAfterRead (s g : nat)   (* g enters the write section of s that a reader has searched: nothing orders them *)
| VReadInWrite (s g : nat)      (* g searches s while somebody is inside the write section *)
| VReadUnsync (s g : nat)       (* g searches s without happens-after the end of its sort *)
| VClose (s g : nat).           (* close of a closed or nil channel (a Go panic) *)

Record sst := mk_sst {
  s_nil : bool;              (* both channels nil: sorted before publication *)
  s_ticket : bool;           (* the [true] is still in needSorterCh *)
  s_holder : option nat;     (* ghost: who received it *)
  s_latch : bool;            (* waitSortedCh closed *)
  s_latch_hb : bool;         (* ghost: the closer was ordered after the end of the sort *)
  s_inw : nat;               (* goroutines inside the write section *)
  s_entered : nat;           (* times the write section was entered *)
  s_done : bool;             (* a sort has finished *)
  s_read : bool }.           (* some reader searched it *)

Definition fresh_sst (nil : bool) := mk_sst nil true None false false 0 0 false false.

Record frame := mk_frame {
  f_seg : nat; f_sync : bool; f_var : bool; f_inw : bool; f_code : list stmt }.

Definition with_code (f : frame) (c : list stmt) :=
  mk_frame (f_seg f) (f_sync f) (f_var f) (f_inw f) c.

Definition eval_cond (c : cond) (x : sst) (f : frame) : bool :=
  match c with CNil _ => s_nil x | CVar => f_var f | CSync => f_sync f end.

(* receive: None = blocks; Some (segment, value received, knowledge) *)
Definition recv (g : nat) (c : chan) (x : sst) (k : bool) : option (sst * bool * bool) :=
  if s_nil x then None (* receive from a nil channel blocks for ever *)
  else match c with
  | NeedSorter =>
      if s_ticket x
      then Some (mk_sst (s_nil x) false (Some g) (s_latch x) (s_latch_hb x) (s_inw x)
                        (s_entered x) (s_done x) (s_read x), true, k)
      else Some (x, false, k)
  | WaitSorted =>
      if s_latch x then Some (x, false, k || s_latch_hb x) else None
  end.

Definition begin_write (x : sst) :=
  mk_sst (s_nil x) (s_ticket x) (s_holder x) (s_latch x) (s_latch_hb x) (S (s_inw x))
         (S (s_entered x)) (s_done x) (s_read x).
Definition end_write (x : sst) :=
  mk_sst (s_nil x) (s_ticket x) (s_holder x) (s_latch x) (s_latch_hb x) (pred (s_inw x))
         (s_entered x) true (s_read x).
Definition close_latch (x : sst) (k : bool) :=
  mk_sst (s_nil x) (s_ticket x) (s_holder x) true (if s_latch x then s_latch_hb x else k)
         (s_inw x) (s_entered x) (s_done x) (s_read x).
Definition mark_read (x : sst) :=
  mk_sst (s_nil x) (s_ticket x) (s_holder x) (s_latch x) (s_latch_hb x) (s_inw x)
         (s_entered x) (s_done x) true.

Inductive fres :=
| FBlocked
| FRet (b : bool)
| FNext (x : sst) (f : frame) (k : bool) (v : option viol).

Definition fstep (g : nat) (x : sst) (k : bool) (f : frame) : fres :=
  let s := f_seg f in
  match f_code f with
  | [] => FRet false
  | SReturn b :: _ => FRet b
  | SIf c th el :: rest =>
      FNext x (with_code f ((if eval_cond c x f then th else el) ++ rest)) k None
  | SRecvVar c :: rest =>
      match recv g c x k with
      | None => FBlocked
      | Some (x', b, k') => FNext x' (mk_frame s (f_sync f) b (f_inw f) rest) k' None
      end
  | SRecv c :: rest =>
      match recv g c x k with
      | None => FBlocked
      | Some (x', _, k') => FNext x' (with_code f rest) k' None
      end
  | SClose WaitSorted :: rest =>
      FNext (close_latch x k) (with_code f rest) k
            (if s_nil x || s_latch x then Some (VClose s g) else None)
  | SClose NeedSorter :: rest => FNext x (with_code f rest) k (Some (VClose s g))
  | SDoSort :: rest =>
      if f_inw f
      then FNext (end_write x) (mk_frame s (f_sync f) (f_var f) false rest) true None
      else FNext (begin_write x) (mk_frame s (f_sync f) (f_var f) true (f_code f)) k
                 (if negb (s_inw x =? 0) then Some (VWriteWrite s g)
                  else if s_read x then Some (VWriteAfterRead s g) else None)
  end.

Inductive kind :=
| KIdle
| KEnsure (lo hi : nat)            (* a reader: ensureSorted(lo,hi), then searches segments lo..hi *)
| KRequest (s : nat) (sync : bool) (* segment s .RequestSort(sync) (batch.RequestSort: sync = false) *)
| KRogue (s : nat).                (* doSort() of a published segment outside RequestSort *)

Record gst := mk_gst {
  g_kind : kind;
  g_sorted : bool;
  g_loop : option (loop * Z);
  g_code : list estmt;
  g_frame : option frame;
  g_known : nat -> bool;           (* ghost *)
  g_ret : option bool }.           (* result of a top-level RequestSort *)

Record state := mk_state { gs : nat -> gst; ss : nat -> sst; bad : option viol }.

Definition note (v b : option viol) := match b with Some _ => b | None => v end.

Definition lrange (k : kind) : Z * Z :=
  match k with KEnsure lo hi => (Z.of_nat lo, Z.of_nat hi) | _ => (0, 0)%Z end.

Definition eval_bound (b : bound) (lo hi : Z) : Z :=
  ((match b_base b with BMin => lo | BMax => hi end) + b_off b)%Z.

Definition loop_cond (l : loop) (lo hi seg : Z) : bool :=
  if l_strict l then (eval_bound (l_lim l) lo hi <? seg)%Z
  else (eval_bound (l_lim l) lo hi <=? seg)%Z.

Definition apply_acc (a : acc) (sorted b : bool) : bool :=
  match a with
  | AccShort => sorted && b | AccEager => b && sorted | AccAssign => b | AccDrop => sorted
  end.

Definition is_short (a : acc) : bool := match a with AccShort => true | _ => false end.

Definition set_g (st : state) (g : nat) (G : gst) : state :=
  mk_state (upd (gs st) g G) (ss st) (bad st).

Definition in_range (k : kind) (s : nat) : bool :=
  match k with KEnsure lo hi => (lo <=? s) && (s <=? hi) | _ => false end.

Definition read_viol (g s : nat) (x : sst) (k : bool) : option viol :=
  if negb (s_inw x =? 0) then Some (VReadInWrite s g)
  else if negb (s_nil x || k) then Some (VReadUnsync s g) else None.

(* one step of goroutine g; [ch] = the segment searched when g is a reader that
   has finished ensureSorted (ignored otherwise).  A blocked or finished
   goroutine leaves the state unchanged. *)
Definition step (P : progs) (st : state) (g ch : nat) : state :=
  let G := gs st g in
  match g_frame G with
  | Some f =>
      let s := f_seg f in
      match fstep g (ss st s) (g_known G s) f with
      | FBlocked => st
      | FNext x f' k v =>
          mk_state (upd (gs st) g (mk_gst (g_kind G) (g_sorted G) (g_loop G) (g_code G) (Some f')
                                          (upd (g_known G) s k) (g_ret G)))
                   (upd (ss st) s x) (note v (bad st))
      | FRet b =>
          match g_loop G with
          | Some (l, seg) =>
              set_g st g (mk_gst (g_kind G) (apply_acc (l_acc l) (g_sorted G) b)
                                 (Some (l, (seg - 1)%Z)) (g_code G) None (g_known G) (g_ret G))
          | None =>
              set_g st g (mk_gst (g_kind G) (g_sorted G) None (g_code G) None (g_known G) (Some b))
          end
      end
  | None =>
      let '(lo, hi) := lrange (g_kind G) in
      match g_loop G with
      | Some (l, seg) =>
          if loop_cond l lo hi seg then
            if is_short (l_acc l) && negb (g_sorted G)
            then (* Go: the right operand of && is not evaluated *)
              set_g st g (mk_gst (g_kind G) (g_sorted G) (Some (l, (seg - 1)%Z)) (g_code G) None
                                 (g_known G) (g_ret G))
            else if (seg <? 0)%Z then st (* index out of range: panic, modelled as stuck *)
            else set_g st g (mk_gst (g_kind G) (g_sorted G) (g_loop G) (g_code G)
                                    (Some (mk_frame (Z.to_nat seg) (l_sync l) false false (p_rs P)))
                                    (g_known G) (g_ret G))
          else set_g st g (mk_gst (g_kind G) (g_sorted G) None (g_code G) None (g_known G) (g_ret G))
      | None =>
          match g_code G with
          | EGuard :: rest =>
              set_g st g (mk_gst (g_kind G) (g_sorted G) None rest None (g_known G) (g_ret G))
          | ESetSorted b :: rest =>
              set_g st g (mk_gst (g_kind G) b None rest None (g_known G) (g_ret G))
          | ELoop l :: rest =>
              set_g st g (mk_gst (g_kind G) (g_sorted G) (Some (l, eval_bound (l_init l) lo hi)) rest
                                 None (g_known G) (g_ret G))
          | EIf neg body :: rest =>
              set_g st g (mk_gst (g_kind G) (g_sorted G) None
                                 (if (if neg then negb (g_sorted G) else g_sorted G)
                                  then body ++ rest else rest) None (g_known G) (g_ret G))
          | [] =>
              if in_range (g_kind G) ch
              then mk_state (gs st) (upd (ss st) ch (mark_read (ss st ch)))
                            (note (read_viol g ch (ss st ch) (g_known G ch)) (bad st))
              else st
          end
      end
  end.

Definition schedule := list (nat * nat).

Fixpoint run (P : progs) (st : state) (sch : schedule) : state :=
  match sch with
  | [] => st
  | (g, ch) :: r => run P (step P st g ch) r
  end.

Fixpoint run_g (P : progs) (st : state) (g n : nat) : state :=
  match n with 0 => st | S n' => run_g P (step P st g 0) g n' end.

(* a goroutine that cannot move now: waiting on a channel *)
Definition blocked (st : state) (g : nat) : bool :=
  match g_frame (gs st g) with
  | Some f =>
      match fstep g (ss st (f_seg f)) (g_known (gs st g) (f_seg f)) f with
      | FBlocked => true | _ => false
      end
  | None => false
  end.

(* waiting on waitSortedCh of segment s *)
Definition waiting_on (st : state) (g s : nat) : Prop :=
  exists f rest, g_frame (gs st g) = Some f /\ f_seg f = s /\
                 f_code f = SRecv WaitSorted :: rest /\ s_latch (ss st s) = false.

Definition init_g (P : progs) (k : kind) : gst :=
  let none := fun _ : nat => false in
  match k with
  | KIdle => mk_gst k false None [] None none None
  | KEnsure _ _ => mk_gst k false None (p_es P) None none None
  | KRequest s sy => mk_gst k false None [] (Some (mk_frame s sy false false (p_rs P))) none None
  | KRogue s => mk_gst k false None [] (Some (mk_frame s false false false [SDoSort])) none None
  end.

Definition kind_ok (P : progs) (k : kind) : bool :=
  match k with KRogue _ => p_rogue P | _ => true end.

Definition init_state (P : progs) (kinds : nat -> kind) (nils : nat -> bool) : state :=
  mk_state (fun g => init_g P (kinds g)) (fun s => fresh_sst (nils s)) None.

(* what a reader may rely on *)
Definition sorted_for (st : state) (g s : nat) : bool :=
  s_nil (ss st s) || g_known (gs st g) s.

Definition ensure_finished (st : state) (g lo hi : nat) : Prop :=
  g_kind (gs st g) = KEnsure lo hi /\ g_frame (gs st g) = None /\
  g_loop (gs st g) = None /\ g_code (gs st g) = [].

(* ------------------------------------------------------------------ *)
(* Part 3: bounded explorer                                            *)

Definition bit (b : bool) (a : positive) : positive := if b then xI a else xO a.

(* five bits of d in front of a: constant time, the key is a bit string *)
Definition push (d : N) (a : positive) : positive :=
  bit (N.testbit d 0) (bit (N.testbit d 1) (bit (N.testbit d 2) (bit (N.testbit d 3) (bit (N.testbit d 4) a)))).

Definition enc_chan (c : chan) : N := match c with NeedSorter => 1 | WaitSorted => 2 end%N.
Definition enc_bool (b : bool) : N := if b then 2%N else 1%N.

Fixpoint enc_stmt (s : stmt) (a : positive) : positive :=
  match s with
  | SIf c th el =>
      let a1 := push (match c with CNil c => 10 + enc_chan c | CVar => 13 | CSync => 14 end)%N (push 3 a) in
      let a2 := (fix go (l : list stmt) (a : positive) : positive :=
                   match l with [] => push 30 a | x :: r => go r (enc_stmt x a) end) th a1 in
      (fix go (l : list stmt) (a : positive) : positive :=
         match l with [] => push 31 a | x :: r => go r (enc_stmt x a) end) el a2
  | SRecvVar c => push (enc_chan c) (push 4 a)
  | SRecv c => push (enc_chan c) (push 5 a)
  | SClose c => push (enc_chan c) (push 6 a)
  | SDoSort => push 7 a
  | SReturn b => push (enc_bool b) (push 8 a)
  end.

Definition enc_stmts (l : list stmt) (a : positive) : positive :=
  push 29 (fold_left (fun a s => enc_stmt s a) l a).

Definition enc_Z (z : Z) (a : positive) : positive :=
  push (Z.to_N (z + 8) mod 32) (push (Z.to_N (z + 8) / 32) a).

Definition enc_bound (b : bound) (a : positive) : positive :=
  enc_Z (b_off b) (push (match b_base b with BMin => 1 | BMax => 2 end)%N a).

Definition enc_loop (l : loop) (a : positive) : positive :=
  push (match l_acc l with AccShort => 1 | AccEager => 2 | AccAssign => 3 | AccDrop => 4 end)%N
   (push (enc_bool (l_sync l)) (enc_bound (l_lim l) (push (enc_bool (l_strict l)) (enc_bound (l_init l) a)))).

Fixpoint enc_estmt (e : estmt) (a : positive) : positive :=
  match e with
  | EGuard => push 1 a
  | ESetSorted b => push (enc_bool b) (push 2 a)
  | ELoop l => enc_loop l (push 3 a)
  | EIf neg body =>
      (fix go (l : list estmt) (a : positive) : positive :=
         match l with [] => push 30 a | x :: r => go r (enc_estmt x a) end) body
        (push (enc_bool neg) (push 4 a))
  end.

Definition enc_frame (f : frame) (a : positive) : positive :=
  enc_stmts (f_code f)
    (push (enc_bool (f_inw f)) (push (enc_bool (f_var f)) (push (enc_bool (f_sync f))
      (push (N.of_nat (f_seg f)) a)))).

Definition enc_gst (NS : nat) (G : gst) (a : positive) : positive :=
  let a := push (enc_bool (g_sorted G)) a in
  let a := match g_loop G with None => push 1 a | Some (l, z) => enc_Z z (enc_loop l (push 2 a)) end in
  let a := push 28 (fold_left (fun a e => enc_estmt e a) (g_code G) a) in
  let a := match g_frame G with None => push 1 a | Some f => enc_frame f (push 2 a) end in
  let a := fold_left (fun a s => bit (g_known G s) a) (seq 0 NS) a in
  match g_ret G with None => push 1 a | Some b => push (1 + enc_bool b) a end.

Definition enc_sst (x : sst) (a : positive) : positive :=
  let a := bit (s_ticket x) a in
  let a := push (match s_holder x with None => 0 | Some g => 1 + N.of_nat g end)%N a in
  let a := bit (s_latch x) (bit (s_latch_hb x) a) in
  let a := push (N.of_nat (s_inw x)) (push (N.of_nat (s_entered x)) a) in
  bit (s_done x) (bit (s_read x) a).

Definition key (NG NS : nat) (st : state) : positive :=
  fold_left (fun a s => enc_sst (ss st s) a) (seq 0 NS)
     (fold_left (fun a g => enc_gst NS (gs st g) a) (seq 0 NG) 1%positive).

Definition reading (st : state) (g : nat) : bool :=
  let G := gs st g in
  match g_frame G, g_loop G, g_code G, g_kind G with
  | None, None, [], KEnsure _ _ => true
  | _, _, _, _ => false
  end.

Definition moves (N S : nat) (st : state) : list (nat * nat) :=
  flat_map (fun g => if reading st g then map (fun s => (g, s)) (seq 0 S) else [(g, 0)]) (seq 0 N).

Inductive outcome :=
| Found (sch : schedule) (v : viol)
| Exhausted (states : nat)      (* every reachable state seen, no violation *)
| OutOfFuel (states : nat).

Definition node := (state * schedule)%type.   (* schedule reversed *)

(* expand one node: Some = violation found *)
Fixpoint expand (P : progs) (N S : nat) (nd : node) (ms : list (nat * nat))
         (vis : PositiveMap.t unit) (next : list node) (cnt : nat)
  : (option (schedule * viol)) * PositiveMap.t unit * list node * nat :=
  match ms with
  | [] => (None, vis, next, cnt)
  | (g, ch) :: r =>
      let st' := step P (fst nd) g ch in
      match bad st' with
      | Some v => (Some (rev ((g, ch) :: snd nd), v), vis, next, cnt)
      | None =>
          let k := key N S st' in
          match PositiveMap.find k vis with
          | Some _ => expand P N S nd r vis next cnt
          | None => expand P N S nd r (PositiveMap.add k tt vis) ((st', (g, ch) :: snd nd) :: next) (Datatypes.S cnt)
          end
      end
  end.

Fixpoint level (P : progs) (N S : nat) (front : list node)
         (vis : PositiveMap.t unit) (next : list node) (cnt : nat)
  : (option (schedule * viol)) * PositiveMap.t unit * list node * nat :=
  match front with
  | [] => (None, vis, next, cnt)
  | nd :: r =>
      match expand P N S nd (moves N S (fst nd)) vis next cnt with
      | (Some w, vis', next', cnt') => (Some w, vis', next', cnt')
      | (None, vis', next', cnt') => level P N S r vis' next' cnt'
      end
  end.

Fixpoint bfs (fuel : nat) (P : progs) (N S : nat) (front : list node)
         (vis : PositiveMap.t unit) (cnt : nat) : outcome :=
  match fuel with
  | 0 => OutOfFuel cnt
  | Datatypes.S fuel' =>
      match front with
      | [] => Exhausted cnt
      | _ =>
          match level P N S front vis [] cnt with
          | (Some (sch, v), _, _, _) => Found sch v
          | (None, vis', next, cnt') => bfs fuel' P N S next vis' cnt'
          end
      end
  end.

Record config := mk_config { c_kinds : list kind; c_nils : list bool }.

Definition config_state (P : progs) (c : config) : state :=
  init_state P (fun g => nth g (c_kinds c) KIdle) (fun s => nth s (c_nils c) true).

Definition explore (fuel : nat) (P : progs) (c : config) : outcome :=
  let st := config_state P c in
  let N := length (c_kinds c) in
  let S := length (c_nils c) in
  bfs fuel P N S [(st, [])] (PositiveMap.add (key N S st) tt (PositiveMap.empty unit)) 1.

(* the configurations searched: every pair (and a few triples) of goroutines
   out of a menu, over 1, 2 and 3 segments *)
Definition menu (P : progs) (S : nat) : list kind :=
  let segs := seq 0 S in
  [KEnsure 0 (S - 1)] ++ (if 2 <=? S then [KEnsure 1 (S - 1); KEnsure 0 (S - 2)] else [])
  ++ map (fun s => KRequest s false) segs ++ map (fun s => KRequest s true) segs
  ++ (if p_rogue P then map KRogue segs else []).

Fixpoint pairs {A} (l : list A) : list (A * A) :=
  match l with [] => [] | x :: r => map (fun y => (x, y)) l ++ pairs r end.

Definition menu3 (P : progs) : list kind :=
  [KEnsure 0 2; KEnsure 1 2; KRequest 1 false; KRequest 2 true] ++ (if p_rogue P then [KRogue 1] else []).

Definition configs (P : progs) : list config :=
  flat_map (fun S =>
    map (fun p => mk_config [fst p; snd p] (repeat false S)) (pairs (menu P S))) [1; 2]
  ++ map (fun p => mk_config [fst p; snd p] [false; false; false]) (pairs (menu3 P))
  ++ [mk_config [KEnsure 0 2; KEnsure 0 1] [false; true; false];
      mk_config [KEnsure 0 1; KEnsure 0 1; KRequest 1 false] [false; false];
      mk_config [KEnsure 0 1; KRequest 0 false; KRequest 1 true] [false; false]].

Inductive verdict :=
| Violation (c : config) (sch : schedule) (v : viol)
| NoViolation (configs states : nat)
| Incomplete (c : config).

Fixpoint search_in (fuel : nat) (P : progs) (cs : list config) (n total : nat) : verdict :=
  match cs with
  | [] => NoViolation n total
  | c :: r =>
      match explore fuel P c with
      | Found sch v => Violation c sch v
      | Exhausted k => search_in fuel P r (S n) (total + k)
      | OutOfFuel _ => Incomplete c
      end
  end.

Definition search (P : progs) : verdict := search_in 400 P (configs P) 0 0.

(* the replay of a Violation: run the schedule, look at [bad] *)
Definition replay (P : progs) (c : config) (sch : schedule) : option viol :=
  bad (run P (config_state P c) sch).
