(* TreeCyclesRun.v - the end-to-end tree theorem IN THE MIDDLE of cycle n+1:
   after any number of open / run / close cycles from any well-formed store,
   the collection reopened on the resulting store and run through any further
   label sequence reads as the reference tree of (per-cycle prefixes ++ the
   batches of the current run).  Pure composition of TreeCyclesFacts. *)
From Coq Require Import List.
From Moss Require Import Tree TreeColl TreeRun TreeInv TreeCycles TreeCyclesFacts.
Import ListNotations.

Section CyclesThenRun.
  Variable fm : bytes -> value -> bytes -> value.
  Notation good := (fun b => tb_good b = true).

  (* the from-any-store theorem together with what the cut-down reference tree is *)
  Theorem tree_snapshot_reads_reference_from_any_store c f r0 ls cs :
    fn_wf f -> fn_reads_mod fm f r0 ->
    Forall good (cbatches ls) ->
    crun fm c (cinit_from c f) ls = Some cs ->
    reads_as fm (t_cur_snapshot (c_t cs)) (rt_run (rt_restrict r0 f) (cbatches ls)) /\
    rt_sub fm (rt_restrict r0 f) r0 /\ fn_reads_exact fm f (rt_restrict r0 f).
  Proof.
    intros Hw Hr Hg Hrun. split.
    - exact (tree_snapshot_reads_reference_from fm c f r0 ls cs Hw Hr Hg Hrun).
    - exact (rt_restrict_spec fm f r0 Hr).
  Qed.

  Theorem tree_cycles_then_run_reads_reference c f0 r0 cy sts ff ls cs :
    fn_wf f0 -> fn_reads_mod fm f0 r0 -> cycles_good cy ->
    cycles_run fm c f0 cy = Some (sts, ff) ->
    Forall2 (fun st (lc : cycle) => close_choice_ok st (snd lc)) sts cy ->
    Forall good (cbatches ls) ->
    crun fm c (cinit_from c ff) ls = Some cs ->
    exists hs,
      Forall2 is_prefix_of hs cy /\
      reads_mod fm (t_cur_snapshot (c_t cs)) (rt_run r0 (concat hs ++ cbatches ls)).
  Proof.
    intros Hw Hr Hg Hrun Hok Hgl Hcr.
    destruct (tree_cycles_prefixes fm c f0 r0 cy sts ff Hw Hr Hg Hrun Hok)
      as (hs & Hp & Hwf & Hrf & _).
    exists hs. split; [exact Hp|].
    rewrite rt_run_app.
    eapply tree_snapshot_reads_reference_from_mod; eauto.
  Qed.

  (* when persistence had caught up before every close: ALL batches of all cycles *)
  Theorem tree_cycles_then_run_reads_everything c f0 r0 cy sts ff ls cs :
    fn_wf f0 -> fn_reads_mod fm f0 r0 -> cycles_good cy ->
    cycles_run fm c f0 cy = Some (sts, ff) ->
    Forall caught_up sts ->
    Forall good (cbatches ls) ->
    crun fm c (cinit_from c ff) ls = Some cs ->
    reads_mod fm (t_cur_snapshot (c_t cs))
              (rt_run r0 (concat (cycle_batches cy) ++ cbatches ls)).
  Proof.
    intros Hw Hr Hg Hrun Hcu Hgl Hcr.
    destruct (tree_cycles_content fm c f0 r0 cy sts ff Hw Hr Hg Hrun Hcu)
      as (Hwf & Hrf & _).
    rewrite rt_run_app.
    eapply tree_snapshot_reads_reference_from_mod; eauto.
  Qed.
End CyclesThenRun.

(* not vacuous: after the three incarnations of TreeCyclesFacts.cy_three (append, append,
   full compaction) a fourth incarnation is stopped in the middle of its run - one batch
   executed and ingested, a second one still in the top - and reads a Merge operand of the
   child collection folded over what the three earlier incarnations persisted *)
Definition cy_mid : list clabel :=
  [CBatch (TB [] [(cy_n, Some (TB [(cy_k, OMerge [99%N])] []))]); CIngest;
   CBatch (TB [(cy_k, ODel)] [])].

Example tree_cycles_then_run_example :
  exists sts ff cs s,
    cycles_good cy_three /\
    cycles_run fm_append cy_cfg fnode_empty cy_three = Some (sts, ff) /\
    Forall caught_up sts /\
    Forall (fun b => tb_good b = true) (cbatches cy_mid) /\
    crun fm_append cy_cfg (cinit_from cy_cfg ff) cy_mid = Some cs /\
    ss_get fm_append (t_cur_snapshot (c_t cs)) cy_k = None /\
    assoc cy_n (ss_kids (t_cur_snapshot (c_t cs))) = Some s /\
    ss_get fm_append s cy_k = Some [100; 58; 97; 58; 98; 58; 99]%N.
Proof.
  destruct (cycles_run fm_append cy_cfg fnode_empty cy_three) as [[sts ff]|] eqn:E;
    [|vm_compute in E; discriminate].
  destruct (crun fm_append cy_cfg (cinit_from cy_cfg ff) cy_mid) as [cs|] eqn:Ec;
    [|vm_compute in E; injection E as <- <-; vm_compute in Ec; discriminate].
  destruct (assoc cy_n (ss_kids (t_cur_snapshot (c_t cs)))) as [s|] eqn:Es;
    [|vm_compute in E; injection E as <- <-; vm_compute in Ec; injection Ec as <-;
      vm_compute in Es; discriminate].
  exists sts, ff, cs, s.
  vm_compute in E. injection E as <- <-. vm_compute in Ec. injection Ec as <-.
  vm_compute in Es. injection Es as <-.
  split; [repeat constructor|]. split; [reflexivity|]. split; [repeat constructor|].
  split; [repeat constructor|]. split; [reflexivity|].
  split; [reflexivity|]. split; reflexivity.
Qed.

Print Assumptions tree_cycles_then_run_reads_reference.
