(* CrashFilesFacts.v - what every crash image of a directory that keeps the discipline
   [files_ok] can hold: the reopened store serves a footer at least as new as the newest
   footer that was ever made durable - whatever was or was not synced afterwards. *)
From Coq Require Import List Arith Bool Lia.
From Moss Require Import CrashFiles.
Import ListNotations.

(* ---- lists of naturals ---------------------------------------------------- *)
Local Arguments maxl : simpl never.

Lemma maxl_cons a l : maxl (a :: l) = Nat.max a (maxl l).
Proof. reflexivity. Qed.

Lemma maxl_ge l x : In x l -> x <= maxl l.
Proof.
  induction l as [|a l IH]; [intros []|]. rewrite maxl_cons.
  intros [<-|H]; [apply Nat.le_max_l|]. specialize (IH H).
  etransitivity; [exact IH|apply Nat.le_max_r].
Qed.

Lemma maxl_in l : l <> [] -> In (maxl l) l.
Proof.
  induction l as [|a l IH]; [congruence|]. intros _. rewrite maxl_cons.
  destruct l as [|b l'].
  - left. cbn. now rewrite Nat.max_0_r.
  - assert (Hn : b :: l' <> []) by congruence. specialize (IH Hn).
    destruct (Nat.max_spec a (maxl (b :: l'))) as [[_ E]|[_ E]]; rewrite E; [right; exact IH|left; reflexivity].
Qed.

Lemma upd_same m f x : upd m f x f = x.
Proof. unfold upd. now rewrite Nat.eqb_refl. Qed.
Lemma upd_other m f x g : g <> f -> upd m f x g = m g.
Proof. unfold upd. intros H. apply Nat.eqb_neq in H. now rewrite H. Qed.

(* ---- what the boolean scans say -------------------------------------------- *)
Lemma newer_has_footer_false s lo n :
  newer_has_footer s lo n = false ->
  forall b, lo <= b < lo + n -> d_exists (files s b) = true -> footers (files s b) = [].
Proof.
  revert lo. induction n as [|n IH]; intros lo H b Hb Hex; [lia|].
  cbn in H. apply orb_false_iff in H as [H1 H2].
  destruct (Nat.eq_dec b lo) as [->|Hne].
  - rewrite Hex in H1. cbn in H1. destruct (footers (files s lo)); [reflexivity|discriminate].
  - apply (IH (S lo) H2); [lia|exact Hex].
Qed.

Lemma any_exists_false s lo n :
  any_exists s lo n = false -> forall b, lo <= b < lo + n -> d_exists (files s b) = false.
Proof.
  revert lo. induction n as [|n IH]; intros lo H b Hb; [lia|].
  cbn in H. apply orb_false_iff in H as [H1 H2].
  destruct (Nat.eq_dec b lo) as [->|Hne]; [exact H1|]. apply (IH (S lo) H2). lia.
Qed.

Lemma holds_in x id : holds x id = true <-> In id (d_durable x).
Proof.
  unfold holds. rewrite existsb_exists. split.
  - intros (y & Hy & E). apply Nat.eqb_eq in E. now subst.
  - intros H. exists id. split; [exact H|apply Nat.eqb_refl].
Qed.

(* ---- the invariant ----------------------------------------------------------- *)
Record Inv (s : dstate) : Prop := {
  i_ids : forall f id, In id (footers (files s f)) -> id < next_id s;
  i_order : forall a b, a < b -> d_exists (files s a) = true -> d_exists (files s b) = true ->
            forall i j, In i (footers (files s a)) -> In j (footers (files s b)) -> i < j;
  i_holder : forall g, g_synced s = Some g ->
             exists y, d_exists (files s y) = true /\ In g (d_durable (files s y));
  i_hi : forall f, d_exists (files s f) = true -> f < hi s;
  i_newest : forall g, g_synced s = Some g ->
             forall f id, d_exists (files s f) = true -> In id (d_durable (files s f)) -> id <= g;
  i_none : g_synced s = None ->
           forall f, d_exists (files s f) = true -> d_durable (files s f) = []
}.

Lemma inv_init : Inv dinit.
Proof. constructor; cbn; try discriminate; try contradiction; intros; try discriminate; auto. Qed.

Lemma omax_cases a l :
  l <> [] ->
  exists g, omax a l = Some g /\ maxl l <= g /\
            (g = maxl l \/ (a = Some g /\ maxl l <= g)) /\
            (forall g0, a = Some g0 -> g0 <= g).
Proof.
  intros Hl. destruct l as [|x l]; [congruence|]. destruct a as [g0|]; cbn [omax].
  - exists (Nat.max g0 (maxl (x :: l))). split; [reflexivity|]. split; [lia|]. split.
    + destruct (Nat.max_spec g0 (maxl (x :: l))) as [[H E]|[H E]]; rewrite E; [left; reflexivity|right; split; [reflexivity|lia]].
    + intros g1 [= <-]. lia.
  - exists (maxl (x :: l)). split; [reflexivity|]. split; [lia|]. split; [left; reflexivity|]. intros g0 [=].
Qed.

Lemma step_inv s e : Inv s -> ev_ok s e = true -> Inv (dstep s e).
Proof.
  intros HI Hok. destruct e as [f|f|f|f]; cbn [dstep ev_ok] in *.
  - (* create *)
    apply negb_true_iff in Hok.
    assert (Hnone : forall b, f <= b -> d_exists (files s b) = false).
    { intros b Hb. destruct (d_exists (files s b)) eqn:E; [|reflexivity].
      pose proof (i_hi s HI b E) as Hlt.
      rewrite <- E. apply (any_exists_false s f (hi s - f) Hok). lia. }
    constructor; cbn.
    + intros g id. destruct (Nat.eq_dec g f) as [->|Hne]; [rewrite upd_same; cbn; intros []|].
      rewrite upd_other by exact Hne. apply (i_ids s HI).
    + intros a b Hab. destruct (Nat.eq_dec a f) as [->|Ha]; [rewrite upd_same; cbn; intros _ _ i j []|].
      destruct (Nat.eq_dec b f) as [->|Hb]; [rewrite upd_same; cbn; intros _ _ i j _ []|].
      rewrite !upd_other by assumption. now apply (i_order s HI).
    + intros g Hg. destruct (i_holder s HI g Hg) as (y & Hy & Hin).
      exists y. assert (y <> f).
      { intros ->. rewrite (Hnone f (le_n _)) in Hy. discriminate. }
      rewrite upd_other by assumption. auto.
    + intros g. destruct (Nat.eq_dec g f) as [->|Hne]; [intros _; lia|].
      rewrite upd_other by exact Hne. intros H. pose proof (i_hi s HI g H). lia.
    + intros g Hg g0 id. destruct (Nat.eq_dec g0 f) as [->|Hne]; [rewrite upd_same; cbn; intros _ []|].
      rewrite upd_other by exact Hne. now apply (i_newest s HI).
    + intros Hg g0. destruct (Nat.eq_dec g0 f) as [->|Hne]; [rewrite upd_same; reflexivity|].
      rewrite upd_other by exact Hne. now apply (i_none s HI).
  - (* footer *)
    apply andb_true_iff in Hok as [Hex Hnew]. apply negb_true_iff in Hnew.
    assert (Hnf : forall b, f < b -> d_exists (files s b) = true -> footers (files s b) = []).
    { intros b Hb E. pose proof (i_hi s HI b E).
      apply (newer_has_footer_false s (S f) (hi s - S f) Hnew); [lia|exact E]. }
    constructor; cbn.
    + intros g id. destruct (Nat.eq_dec g f) as [->|Hne].
      * rewrite upd_same. unfold footers; cbn. intros [<-|H]; [lia|].
        pose proof (i_ids s HI f id H). lia.
      * rewrite upd_other by exact Hne. intros H. pose proof (i_ids s HI g id H). lia.
    + intros a b Hab. destruct (Nat.eq_dec a f) as [->|Ha].
      * rewrite upd_same, (upd_other _ _ _ b) by lia. cbn. intros _ Hb i j Hi Hj.
        rewrite (Hnf b Hab Hb) in Hj. destruct Hj.
      * rewrite (upd_other _ _ _ a) by exact Ha.
        destruct (Nat.eq_dec b f) as [->|Hb].
        -- rewrite upd_same. unfold footers at 2; cbn. intros Hea _ i j Hi [<-|Hj].
           ++ apply (i_ids s HI a i Hi).
           ++ apply (i_order s HI a f Hab Hea Hex i j Hi Hj).
        -- rewrite upd_other by exact Hb. now apply (i_order s HI).
    + intros g Hg. destruct (i_holder s HI g Hg) as (y & Hy & Hin). exists y.
      destruct (Nat.eq_dec y f) as [->|Hne]; [rewrite upd_same; cbn; auto|].
      rewrite upd_other by exact Hne. auto.
    + intros g. destruct (Nat.eq_dec g f) as [->|Hne]; [rewrite upd_same; cbn; intros _; now apply (i_hi s HI)|].
      rewrite upd_other by exact Hne. apply (i_hi s HI).
    + intros g Hg g0 id. destruct (Nat.eq_dec g0 f) as [->|Hne].
      * rewrite upd_same; cbn. intros _. now apply (i_newest s HI g Hg f id).
      * rewrite upd_other by exact Hne. now apply (i_newest s HI).
    + intros Hg g0. destruct (Nat.eq_dec g0 f) as [->|Hne].
      * rewrite upd_same; cbn. intros _. now apply (i_none s HI Hg f).
      * rewrite upd_other by exact Hne. now apply (i_none s HI).
  - (* sync *)
    constructor; cbn.
    + intros g id. destruct (Nat.eq_dec g f) as [->|Hne].
      * rewrite upd_same. unfold footers at 1; cbn. apply (i_ids s HI).
      * rewrite upd_other by exact Hne. apply (i_ids s HI).
    + intros a b Hab.
      assert (Hf : forall g, footers (upd (files s) f {| d_exists := d_exists (files s f);
                    d_durable := footers (files s f); d_pending := [] |} g) = footers (files s g)
                   /\ d_exists (upd (files s) f {| d_exists := d_exists (files s f);
                    d_durable := footers (files s f); d_pending := [] |} g) = d_exists (files s g)).
      { intros g. destruct (Nat.eq_dec g f) as [->|Hne]; [rewrite upd_same; auto|].
        rewrite upd_other by exact Hne. auto. }
      rewrite !(proj1 (Hf _)), !(proj2 (Hf _)). now apply (i_order s HI).
    + intros g Hg. destruct (d_exists (files s f)) eqn:Hex.
      * destruct (d_pending (files s f)) as [|p ps] eqn:Hp.
        -- cbn in Hg. assert (Hg' : g_synced s = Some g) by (destruct (g_synced s); exact Hg).
           destruct (i_holder s HI g Hg') as (y & Hy & Hin). exists y.
           destruct (Nat.eq_dec y f) as [->|Hne].
           ++ rewrite upd_same; cbn. split; [first [exact Hex|reflexivity]|]. unfold footers. rewrite Hp. exact Hin.
           ++ rewrite upd_other by exact Hne. auto.
        -- destruct (omax_cases (g_synced s) (p :: ps)) as (g1 & E & _ & Hc & _); [congruence|].
           rewrite E in Hg. injection Hg as <-.
           destruct Hc as [->|[Hold _]].
           ++ exists f. rewrite upd_same; cbn. split; [first [exact Hex|reflexivity]|].
              unfold footers. rewrite Hp. apply in_or_app. left. apply maxl_in. congruence.
           ++ destruct (i_holder s HI g1 Hold) as (y & Hy & Hin). exists y.
              destruct (Nat.eq_dec y f) as [->|Hne].
              ** rewrite upd_same; cbn. split; [first [exact Hex|reflexivity]|]. unfold footers. apply in_or_app. now right.
              ** rewrite upd_other by exact Hne. auto.
      * destruct (i_holder s HI g Hg) as (y & Hy & Hin). exists y.
        assert (y <> f) by (intros ->; congruence).
        rewrite upd_other by assumption. auto.
    + intros g. destruct (Nat.eq_dec g f) as [->|Hne]; [rewrite upd_same; cbn; apply (i_hi s HI)|].
      rewrite upd_other by exact Hne. apply (i_hi s HI).
    + intros g Hg g0 id. destruct (Nat.eq_dec g0 f) as [->|Hne].
      * rewrite upd_same; cbn. intros Hex Hin. rewrite Hex in Hg.
        unfold footers in Hin. apply in_app_or in Hin as [Hin|Hin].
        -- destruct (omax_cases (g_synced s) (d_pending (files s f))) as (g1 & E & Hm & _ & _).
           { intros E0. rewrite E0 in Hin. destruct Hin. }
           rewrite E in Hg. injection Hg as <-. pose proof (maxl_ge _ _ Hin). lia.
        -- destruct (g_synced s) as [g0|] eqn:Eg.
           ++ pose proof (i_newest s HI g0 Eg f id Hex Hin) as Hle.
              destruct (d_pending (files s f)) as [|p ps]; cbn in Hg; [injection Hg as <-; exact Hle|].
              injection Hg as <-. lia.
           ++ rewrite (i_none s HI Eg f Hex) in Hin. destruct Hin.
      * rewrite upd_other by exact Hne. intros Hex Hin.
        destruct (d_exists (files s f)) eqn:Hexf.
        -- destruct (g_synced s) as [g1|] eqn:Eg.
           ++ pose proof (i_newest s HI g1 Eg g0 id Hex Hin) as Hle.
              destruct (d_pending (files s f)) as [|p ps]; cbn in Hg; [injection Hg as <-; exact Hle|].
              injection Hg as <-. lia.
           ++ rewrite (i_none s HI Eg g0 Hex) in Hin. destruct Hin.
        -- now apply (i_newest s HI g Hg g0 id).
    + intros Hg g0. destruct (Nat.eq_dec g0 f) as [->|Hne].
      * rewrite upd_same; cbn. intros Hex. rewrite Hex in Hg.
        destruct (d_pending (files s f)) as [|p ps] eqn:Hp.
        -- cbn in Hg. assert (Hg' : g_synced s = None) by (destruct (g_synced s); [discriminate|reflexivity]).
           unfold footers. rewrite Hp. cbn. now apply (i_none s HI Hg' f).
        -- destruct (g_synced s); cbn in Hg; discriminate.
      * rewrite upd_other by exact Hne. intros Hex.
        destruct (d_exists (files s f)) eqn:Hexf.
        -- destruct (d_pending (files s f)) as [|p ps] eqn:Hp.
           ++ cbn in Hg. assert (Hg' : g_synced s = None) by (destruct (g_synced s); [discriminate|reflexivity]).
              now apply (i_none s HI Hg' g0).
           ++ destruct (g_synced s); cbn in Hg; discriminate.
        -- now apply (i_none s HI Hg g0).
  - (* unlink *)
    constructor; cbn.
    + intros g id. destruct (Nat.eq_dec g f) as [->|Hne]; [rewrite upd_same|rewrite upd_other by exact Hne]; apply (i_ids s HI).
    + intros a b Hab. destruct (Nat.eq_dec a f) as [->|Ha]; [rewrite upd_same; cbn; discriminate|].
      destruct (Nat.eq_dec b f) as [->|Hb]; [rewrite upd_same; cbn; discriminate|].
      rewrite !upd_other by assumption. now apply (i_order s HI).
    + intros g Hg. rewrite Hg in Hok. destruct (i_holder s HI g Hg) as (y & Hy & Hin). exists y.
      assert (y <> f).
      { intros ->. rewrite Hy in Hok. apply (proj2 (holds_in _ _)) in Hin. rewrite Hin in Hok. discriminate. }
      rewrite upd_other by assumption. auto.
    + intros g. destruct (Nat.eq_dec g f) as [->|Hne]; [rewrite upd_same; cbn; discriminate|].
      rewrite upd_other by exact Hne. apply (i_hi s HI).
    + intros g Hg g0 id. destruct (Nat.eq_dec g0 f) as [->|Hne]; [rewrite upd_same; cbn; discriminate|].
      rewrite upd_other by exact Hne. now apply (i_newest s HI).
    + intros Hg g0. destruct (Nat.eq_dec g0 f) as [->|Hne]; [rewrite upd_same; cbn; discriminate|].
      rewrite upd_other by exact Hne. now apply (i_none s HI).
Qed.

Lemma fold_left_app_step (tr : list fev) e s :
  fold_left dstep (tr ++ [e]) s = dstep (fold_left dstep tr s) e.
Proof. now rewrite fold_left_app. Qed.

Lemma files_ok_from_inv tr : forall s, Inv s -> files_ok_from s tr = true ->
  forall n, Inv (fold_left dstep (firstn n tr) s).
Proof.
  induction tr as [|e tr IH]; intros s HI Hok n.
  - destruct n; exact HI.
  - cbn in Hok. apply andb_true_iff in Hok as [H1 H2].
    destruct n as [|n]; [exact HI|]. cbn. apply IH; [now apply step_inv|exact H2].
Qed.

Theorem files_ok_inv tr n : files_ok tr = true -> Inv (drun (firstn n tr)).
Proof. intros H. apply (files_ok_from_inv tr dinit inv_init H n). Qed.

(* ---- crash images and the reopen ------------------------------------------------ *)
(* power failure: a file keeps every footer a Sync has covered and any subset of the footers
   written since (a footer is a single write: present or absent - torn ones are Crash.v's and
   FileFormat's subject and count as absent) *)
Definition img_ok (s : dstate) (img : image) : Prop :=
  forall f, (d_exists (files s f) = true -> incl (d_durable (files s f)) (img f)) /\
            incl (img f) (footers (files s f)).

Lemma reopen_from_finds s img n y :
  y < n -> d_exists (files s y) = true -> img y <> [] ->
  exists z, reopen_from s img n = Some (z, maxl (img z)) /\ y <= z < n /\
            d_exists (files s z) = true /\ img z <> [].
Proof.
  induction n as [|n IH]; intros Hy Hex Hne; [lia|].
  cbn. destruct (d_exists (files s n) && negb (match img n with [] => true | _ => false end)) eqn:E.
  - apply andb_true_iff in E as [E1 E2]. exists n. split; [reflexivity|]. split; [lia|]. split; [exact E1|].
    destruct (img n); [discriminate|congruence].
  - destruct (Nat.eq_dec y n) as [->|Hyn].
    + rewrite Hex in E. cbn in E. destruct (img n); [congruence|discriminate].
    + destruct (IH ltac:(lia) Hex Hne) as (z & Hr & Hz & Hez & Hnz).
      exists z. split; [exact Hr|]. split; [lia|]. auto.
Qed.

Theorem reopen_serves_at_least_synced s img g :
  Inv s -> img_ok s img -> g_synced s = Some g ->
  exists z id, reopen s img = Some (z, id) /\ g <= id /\ In id (img z) /\
               d_exists (files s z) = true.
Proof.
  intros HI Himg Hg. destruct (i_holder s HI g Hg) as (y & Hy & Hin).
  assert (Hgy : In g (img y)) by (apply (proj1 (Himg y) Hy); exact Hin).
  assert (Hne : img y <> []) by (intros E; rewrite E in Hgy; destruct Hgy).
  destruct (reopen_from_finds s img (hi s) y (i_hi s HI y Hy) Hy Hne) as (z & Hr & Hz & Hez & Hnz).
  exists z, (maxl (img z)). split; [exact Hr|]. split; [|split; [now apply maxl_in|exact Hez]].
  destruct (Nat.eq_dec z y) as [->|Hzy].
  - now apply maxl_ge.
  - assert (Hj : In (maxl (img z)) (footers (files s z))) by (apply (proj2 (Himg z)); now apply maxl_in).
    assert (Hi : In g (footers (files s y))) by (unfold footers; apply in_or_app; now right).
    pose proof (i_order s HI y z ltac:(lia) Hy Hez g _ Hi Hj). lia.
Qed.

(* THE THEOREM: a trace that keeps the discipline, cut at ANY point, any crash image: the
   reopened directory serves a footer at least as new as the newest footer ever made durable *)
Theorem crash_serves_at_least_last_synced tr n img g :
  files_ok tr = true ->
  let s := drun (firstn n tr) in
  img_ok s img -> g_synced s = Some g ->
  exists z id, reopen s img = Some (z, id) /\ g <= id /\ In id (img z).
Proof.
  intros Hok s Himg Hg.
  destruct (reopen_serves_at_least_synced s img g (files_ok_inv tr n Hok) Himg Hg) as (z & id & H1 & H2 & H3 & _).
  eauto.
Qed.

(* the newest durable footer only grows: a round that completed with syncing stays covered *)
Lemma g_synced_step_mono s e g : g_synced s = Some g -> exists g', g_synced (dstep s e) = Some g' /\ g <= g'.
Proof.
  intros Hg. destruct e as [f|f|f|f]; cbn; try (exists g; split; [exact Hg|lia]).
  destruct (d_exists (files s f)); [|exists g; split; [exact Hg|lia]].
  rewrite Hg. destruct (d_pending (files s f)) as [|p ps]; cbn; [exists g; split; [reflexivity|lia]|].
  eexists; split; [reflexivity|lia].
Qed.

Theorem g_synced_mono tr2 : forall s g, g_synced s = Some g ->
  exists g', g_synced (fold_left dstep tr2 s) = Some g' /\ g <= g'.
Proof.
  induction tr2 as [|e r IH]; intros s g Hg; cbn; [exists g; split; [exact Hg|lia]|].
  destruct (g_synced_step_mono s e g Hg) as (g1 & H1 & Hle).
  destruct (IH (dstep s e) g1 H1) as (g2 & H2 & Hle2). exists g2. split; [exact H2|lia].
Qed.

(* a footer that was synced while its file existed is covered by g_synced from then on *)
Lemma sync_covers s f id :
  d_exists (files s f) = true -> In id (d_pending (files s f)) ->
  exists g, g_synced (dstep s (FSync f)) = Some g /\ id <= g.
Proof.
  intros Hex Hin. cbn. rewrite Hex.
  destruct (omax_cases (g_synced s) (d_pending (files s f))) as (g & E & Hm & _ & _).
  { intros E0. rewrite E0 in Hin. destruct Hin. }
  exists g. split; [exact E|]. pose proof (maxl_ge _ _ Hin). lia.
Qed.

(* ---- the discipline is needed; the pinned compaction breaks it --------------------- *)
(* pinned code, NoSync rounds after a synced one, zero-valued CompactionSyncAfterBytes: the
   trace is rejected, and the image in which nothing un-synced reached the disk reopens to
   NOTHING although footer 0 had been made durable *)
Theorem unsynced_compaction_loses_synced_round_refuted :
  files_ok tr_unsynced_compaction = false /\
  exists img, let s := drun tr_unsynced_compaction in
    img_ok s img /\ g_synced s = Some 0 /\ reopen s img = None.
Proof.
  split; [reflexivity|].
  exists (fun _ => []). cbv zeta. split; [|split; reflexivity].
  intros f. split.
  - destruct f as [|[|[|f]]]; vm_compute; intros H; try discriminate H; intros x [].
  - intros x [].
Qed.

(* the repaired order keeps the discipline (and the theorem is not vacuous) *)
Example synced_compaction_ok :
  files_ok tr_synced_compaction = true /\ g_synced (drun tr_synced_compaction) = Some 1.
Proof. split; reflexivity. Qed.

(* without the second clause (a footer written below a newer file that holds one: F30) *)
Definition tr_stale_newer_file : list fev :=
  [FCreate 1; FFooter 1; FSync 1; FCreate 2; FFooter 2; FSync 2; FFooter 1; FSync 1].
Theorem footer_below_newer_file_refuted :
  files_ok tr_stale_newer_file = false /\
  exists img, let s := drun tr_stale_newer_file in
    img_ok s img /\ g_synced s = Some 2 /\ reopen s img = Some (2, 1).
Proof.
  split; [reflexivity|].
  exists (fun f => match f with 1 => [2; 0] | 2 => [1] | _ => [] end). cbv zeta.
  split; [|split; reflexivity].
  intros f. destruct f as [|[|[|f]]]; split; try (intros _); vm_compute; intros x Hx; tauto.
Qed.

Print Assumptions crash_serves_at_least_last_synced.
