(* Sync2Stall.v - the converse clause of the zero-gauge property for data at rest, in the
   fine-grained wait/notify model Sync2.v: the dirty gauges do not stay non-zero for ever.
     no_persist_stall    the one-step statement of Sync2Progress.v without its two
                         program-point premises (MHandover, MWaitOut g);
     gauges_step         in every open state with a lower level, without a pending caller
                         and with something dirty (top / mid / base), a background step
                         (no failing merge, no failing update) is enabled that strictly
                         decreases the measure mu_g (Sync2StallA.v);
     gauges_reach_zero   hence a background schedule no longer than mu_g <= 72 after which
                         top, mid and base are all empty (the last round is published).
   The scheduler of the proof: while stackDirtyBase is set the persister runs its round;
   otherwise the merger is brought to its ingest (top non-empty) or to its hand-over (a
   merged stack waits), woken by the persister's ping where it sleeps and released by the
   persister's close of the outgoing channel where it waits on the dirty limits.
   Proofs only; the model is Sync2.v; the cases are in Sync2StallA/B/C.v. *)
From Coq Require Import List Arith Bool Lia.
Import ListNotations.
From Moss Require Import Sync2 Sync2Facts Sync2ProgressA Sync2Progress
  Sync2StallA Sync2StallB Sync2StallC.

Section Stall.
Variable c : config.
Hypothesis cap_pos : 1 <= c_cap c.
Hypothesis qcap_pos : 1 <= c_qcap c.

Lemma bg_not_mergefail l : bg l = true -> l <> LMMergeFail.
Proof. intros B ->. discriminate B. Qed.

Lemma gctx_intro s :
  inv c s -> invK c s -> c_ll c = true -> z_closed s = false -> ~ pending s -> gctx c s.
Proof.
  intros I K Ll Cl NP. unfold gctx.
  split; [exact I|]. split; [exact K|]. split; [exact Ll|]. split; [exact Cl|].
  unfold pending in NP. lia.
Qed.

Lemma not_dirty_zero s : dirty s = false -> gauges_zero s.
Proof.
  unfold dirty, gauges_zero. intros D.
  destruct (z_mid s), (z_base s); rewrite ?orb_true_r in D; try discriminate D.
  cbn [orb] in D. rewrite !orb_false_r in D. apply Nat.ltb_ge in D. repeat split; lia.
Qed.

(* ONE STEP, every program point: something dirty, nobody calling => a background step other
   than a failing merge / a failing update is enabled and decreases mu_g *)
Theorem gauges_step s :
  inv c s -> invK c s -> c_ll c = true -> z_closed s = false -> ~ pending s ->
  dirty s = true ->
  exists l s', bg l = true /\ step c s l = Some s' /\ mu_g s' < mu_g s.
Proof.
  intros I K Ll Cl NP D.
  pose proof (gctx_intro s I K Ll Cl NP) as X. change (ggoal c s).
  assert (NX : mexiting (z_mp s) = false).
  { destruct (mexiting (z_mp s)) eqn:Ex; auto. unfold inv in I. sat. congruence. }
  destruct (z_base s) eqn:Hb; [apply g_base; auto|].
  destruct (0 <? z_top s) eqn:Ht.
  - destruct (z_mp s) eqn:Emp; try discriminate NX.
    + eapply g_top_MReply; eauto.
    + eapply g_top_MCheck; eauto.
    + eapply g_top_MSelect; eauto.
    + eapply g_top_MDrain; eauto.
    + eapply g_top_MIngest; eauto.
    + eapply g_top_MMerge; eauto.
    + eapply g_top_MHandover; eauto.
    + eapply g_top_MWaitOut; eauto.
  - assert (T0 : z_top s = 0) by (apply Nat.ltb_ge in Ht; lia).
    assert (Hm : z_mid s = true).
    { unfold dirty in D. rewrite Ht, Hb in D. destruct (z_mid s); auto. }
    destruct (z_mp s) eqn:Emp; try discriminate NX.
    + eapply g_mid_MReply; eauto.
    + eapply g_mid_MCheck; eauto.
    + eapply g_mid_MSelect; eauto.
    + eapply g_mid_MDrain; eauto.
    + eapply g_mid_MIngest; eauto.
    + eapply g_mid_MMerge; eauto.
    + eapply g_mid_MHandover; eauto.
    + eapply g_mid_MWaitOut; eauto.
Qed.

(* THE SCHEDULE: from every open state satisfying the proved invariants, with a lower level
   and without a pending caller, a schedule of background steps (no failing merge, every
   lower-level update succeeds), no longer than mu_g s, after which the gauges are zero *)
Theorem gauges_reach_zero_inv : forall n s,
  inv c s -> invK c s -> c_ll c = true -> z_closed s = false -> ~ pending s -> mu_g s <= n ->
  exists ls s', Forall (fun l => bg l = true) ls /\ length ls <= mu_g s /\
                run c s ls = Some s' /\ gauges_zero s' /\
                ~ pending s' /\ z_closed s' = false /\ inv c s' /\ invK c s'.
Proof.
  induction n as [|n IH]; intros s I K Ll Cl NP Hn.
  - exists [], s. split; [constructor|]. split; [simpl; lia|]. split; [reflexivity|].
    split; [|auto]. apply not_dirty_zero. destruct (dirty s) eqn:D; auto.
    destruct (gauges_step s I K Ll Cl NP D) as (l & s' & _ & _ & Dm). lia.
  - destruct (dirty s) eqn:D.
    + destruct (gauges_step s I K Ll Cl NP D) as (l & s1 & B & St & Dm).
      assert (I1 : inv c s1) by (eapply inv_step; eauto).
      assert (K1 : invK c s1).
      { exact (invK_step c cap_pos qcap_pos s l s1 I K (bg_not_mergefail l B) St). }
      assert (Cl1 : z_closed s1 = false) by (eapply bg_keeps_open; eauto).
      assert (NP1 : ~ pending s1) by (eapply bg_keeps_not_pending; eauto).
      destruct (IH s1 I1 K1 Ll Cl1 NP1 ltac:(lia)) as (ls & s' & F & L & R & Z & Rest).
      exists (l :: ls), s'. split; [constructor; auto|]. split; [simpl; lia|].
      split; [|split; auto].
      unfold run in *. simpl. unfold step in St. rewrite St. exact R.
    + exists [], s. split; [constructor|]. split; [simpl; lia|]. split; [reflexivity|].
      split; [apply not_dirty_zero; exact D|auto].
Qed.

(* ... stated for the states the model reaches without a failing merge (after a failing
   merge the un-merged stack is not handed over: persist_stall_after_merge_failure) *)
Theorem gauges_reach_zero s :
  reachable_nf c s -> c_ll c = true -> z_closed s = false -> ~ pending s ->
  exists ls s', Forall (fun l => bg l = true) ls /\
                length ls <= mu_g s /\ mu_g s <= 72 /\
                run c s ls = Some s' /\ gauges_zero s' /\
                ~ pending s' /\ z_closed s' = false /\ reachable_nf c s'.
Proof.
  intros R Ll Cl NP.
  pose proof R as R0. apply reachable_nf_inv in R0; auto. destruct R0 as [I K].
  destruct (gauges_reach_zero_inv (mu_g s) s I K Ll Cl NP (le_n _))
    as (ls & s' & F & L & Rn & Z & NP' & Cl' & _ & _).
  exists ls, s'. split; [exact F|]. split; [exact L|]. split; [apply mu_g_bound|].
  split; [exact Rn|]. split; [exact Z|]. split; [exact NP'|]. split; [exact Cl'|].
  destruct R as (l0 & NF & R). exists (l0 ++ ls). split.
  - intros X. apply in_app_or in X. destruct X as [X|X]; [exact (NF X)|].
    rewrite Forall_forall in F. apply F in X. discriminate X.
  - unfold run in *. rewrite run_app, R. exact Rn.
Qed.

(* ------------------------------------------------------------------ *)
(* the one-step statement of Sync2Progress.v (measure mu_p: distance to the hand-over of a
   merged stack) without its two program-point premises *)
Lemma stall_goal_intro s :
  ~ pending s ->
  (exists l s', bg l = true /\ step c s l = Some s' /\ mu_p s' < mu_p s) ->
  exists l s', bg l = true /\ l <> LMMergeFail /\ step c s l = Some s' /\
               mu_p s' < mu_p s /\ ~ pending s'.
Proof.
  intros NP (l & s' & B & St & D). exists l, s'.
  split; [exact B|]. split; [apply bg_not_mergefail; exact B|]. split; [exact St|].
  split; [exact D|]. eapply bg_keeps_not_pending; eauto.
Qed.

Ltac pdec2 := gdec_with ltac:(unfold mu_p, dPp, wakeable).

Theorem no_persist_stall s :
  inv c s -> invK c s -> c_ll c = true -> z_closed s = false ->
  z_mid s = true -> z_base s = false -> ~ pending s ->
  exists l s', bg l = true /\ l <> LMMergeFail /\ step c s l = Some s' /\
               mu_p s' < mu_p s /\ ~ pending s'.
Proof.
  intros I0 K0 Ll0 Cl0 Hm Hb NP.
  destruct (z_mp s) eqn:Emp;
  try (apply no_persist_stall_partial; auto; rewrite Emp; intros; discriminate).
  - (* MHandover: the hand-over itself *)
    apply stall_goal_intro; [exact NP|].
    pose proof (gctx_intro s I0 K0 Ll0 Cl0 NP) as X. revert X. gintro.
    take c s LMHandover; dd pdec2.
  - (* MWaitOut g: the dirty-limit wait *)
    apply stall_goal_intro; [exact NP|].
    pose proof (gctx_intro s I0 K0 Ll0 Cl0 NP) as X. revert X. gintro.
    destruct (z_oready s) eqn:Er.
    { take c s LMOutWake; dd pdec2. }
    assert (Epp : z_pp s = PCloseOut (Some g)).
    { destruct I as (I1&I2&I3&I3b&I4&I4b&I5&I6&I7&J1&J1b&J2&J3&J4&J5a&J5b&J5c&I9a&I9b&I10&I11&I12).
      apply (J2 g Emp eq_refl). intros Eo.
      assert (z_base s = true); [|congruence].
      apply J3; [congruence|]. rewrite (I9b Cl). discriminate. }
    exists LPCloseOut, (set_pp PTop (set_oready true s)). split; [reflexivity|]. split.
    { unfold step, step_gen. rewrite Epp, Emp, Nat.eqb_refl. reflexivity. }
    unfold mu_p; zs. rewrite ?Emp, ?Er, ?Hb, ?Hm. cbn [negb orb]. cbv beta iota. lia.
Qed.
End Stall.

(* ------------------------------------------------------------------ *)
(* the hypotheses are met by non-trivial reachable states *)

(* no dirty limits: a batch in the top, an un-handed-over merged stack (its hand-over was
   skipped: the persister is busy), a stack with the persister; merger at its loop top *)
Definition sched_dirty_at_rest : list step_label :=
  [LMReply; LMCheck; LPTop;
   LWCall; LWCloseInc; LMSelInc; LMDrain; LMIngest; LMMergeOk; LMHandover; LMReply; LMCheck;
   LWCall; LWCloseInc; LMSelInc; LMDrain; LMIngest; LMMergeOk; LMHandover;
   LWCall].

Ltac not_in := intros X; cbn [In] in X;
  repeat (destruct X as [X|X]; [discriminate X|]); exact X.

Example gauges_hyps_satisfiable :
  exists s, reachable_nf cfg_plain s /\ c_ll cfg_plain = true /\ z_closed s = false /\
            ~ pending s /\ z_top s = 1 /\ z_mid s = true /\ z_base s = true /\
            z_mp s = MReply /\ z_pp s = PWoken /\ dirty s = true.
Proof.
  destruct (run cfg_plain (init cfg_plain) sched_dirty_at_rest) as [s|] eqn:E;
    [|vm_compute in E; discriminate].
  exists s. split; [exists sched_dirty_at_rest; split; [unfold sched_dirty_at_rest; not_in|exact E]|].
  vm_compute in E. injection E as <-.
  repeat split; try reflexivity. unfold pending; cbn; lia.
Qed.

(* dirty limits: the merger waits on the outgoing channel, the persister has been woken
   and holds the stack, a new batch sits in the top *)
Definition sched_dirty_limit_wait : list step_label :=
  [LMReply; LMCheck; LPTop;
   LWCall; LWCloseInc; LMSelInc; LMDrain; LMIngest; LMMergeOk; LMHandover; LWCall].

Example gauges_hyps_satisfiable_limits :
  exists s, reachable_nf cfg_limits s /\ c_ll cfg_limits = true /\ z_closed s = false /\
            ~ pending s /\ z_top s = 1 /\ z_base s = true /\ z_mp s = MWaitOut 0 /\
            z_oready s = false /\ dirty s = true.
Proof.
  destruct (run cfg_limits (init cfg_limits) sched_dirty_limit_wait) as [s|] eqn:E;
    [|vm_compute in E; discriminate].
  exists s. split; [exists sched_dirty_limit_wait; split; [unfold sched_dirty_limit_wait; not_in|exact E]|].
  vm_compute in E. injection E as <-.
  repeat split; try reflexivity. unfold pending; cbn; lia.
Qed.

(* a test of the statement on the second state: the schedule the proof's scheduler picks
   (20 steps <= mu_g = 58), computed *)
Example gauges_drain_limits_computed :
  exists s s', run cfg_limits (init cfg_limits) sched_dirty_limit_wait = Some s /\
    run cfg_limits s
      [LPTop; LPChk; LPUpdOk; LPPublish; LPCloseOut; LMOutWake; LMReply; LMCheck; LMDrain;
       LMIngest; LMMergeOk; LMHandover; LPTop; LPChk; LPUpdOk; LPPublish; LPCloseOut;
       LMOutWake; LMReply; LMCheck] = Some s' /\
    gauges_zero s' /\ mu_g s = 58.
Proof.
  eexists. eexists. split; [vm_compute; reflexivity|]. split; [vm_compute; reflexivity|].
  vm_compute. repeat split; reflexivity.
Qed.

Print Assumptions gauges_step.
Print Assumptions gauges_reach_zero_inv.
Print Assumptions gauges_reach_zero.
Print Assumptions no_persist_stall.
Print Assumptions gauges_hyps_satisfiable.
