(* StoreCrash.v — CRASH POINTS and CRASH IMAGES for the persistence-round model
   of StoreOps.v.  Definitions only; proofs in StoreCrashFacts.v.

   1. A round is restated as a straight-line PROGRAM: the list of the state
      changes (primitives of StoreOps.v: map_file with file_inc / file_dec /
      file_sync / file_addfoot / file_doom, obj_addref, obj_decref, ...) that
      persister_round performs under the given failure oracle, in code order.
      Running the program (exec_all) gives exactly the state persister_round
      gives (StoreCrashFacts.round_prog_correct), so nothing is re-modelled.
      The states BETWEEN the primitives are the crash points: states_of lists
      the state before the first primitive, after every primitive, and, for
      the one step whose effect the model of StoreOps.v applies atomically
      although it consists of two system calls (OpenFile(O_CREATE) followed by
      the header WriteAt), the state in between ("created, no header page").
      Every fallible step of StoreOps.step changes the state through at most
      one primitive, so "after each fallible step" is covered, and a crash
      INSIDE a step (a torn write is garbage, i.e. no change in the model)
      coincides with the crash point before or after it.

   2. A crash image of a state: what the directory can hold after the crash.
      - noSync o = true: PROCESS KILL; every operation issued so far has been
        applied, in order: the image is the state's files, exactly.
      - noSync o = false: POWER FAILURE; a file that does not exist is not
        created by the crash; a complete footer survives when it was followed
        by a successful Sync (its id is not in f_unsynced); of the others any
        subset survives; a file with a surviving footer exists and has its
        header page, and the surviving footer has its data - THIS is the
        barrier property (the Sync before the footer write, persistFooter,
        store_footer.go:26-31; Crash.v / CrashFacts.complete_footer_has_its_data
        for the write/sync trace of one file), made explicit as the argument
        `barrier_holds`: with barrier_holds = false a surviving footer may
        read as any content; a file without a surviving footer may be missing
        or header-less (its header page was possibly never synced).
        Unlinks and creates are ordered and a crash never removes a file.

   3. reopen_image: openStore (store.go:530-655) on the image: `reopen` of
      StoreOps.v — newest file with a header page and a complete footer; files
      without header page or without footer are skipped. *)
From Coq Require Import List Arith Bool.
From Moss Require Import StoreOps.
Import ListNotations.

(* ------------------------------------------------------------------ *)
(* 1. Rounds as programs                                                *)

(* the (at most) two files and two Footer objects a round touches:
   false = the served file f / the served Footer object c,
   true  = the file g created by this round / the Footer object m of this round *)
Definition pk (sel : bool) (x y : nat) : nat := if sel then y else x.

Inductive prim :=
| PFile (sel : bool) (F : file -> file)   (* map_file on f or g *)
| PCreate (ok : bool)                     (* createNextFileLOCKED + persistHeader on g:
                                             ok: header page written; not ok: Close + os.Remove *)
| PObjInc (sel : bool)                    (* Footer.AddRef *)
| PObjDec (sel : bool)                    (* Footer.DecRef *)
| PAlloc (tsel : bool) (ct : list nat)    (* &Footer{refs: 1} with segments mapped from f or g *)
| PBumpId
| PBumpNf                                 (* s.nextFNameSeq++ *)
| PSetSc (sel : bool)                     (* s.footer = ... *)
| PSetLc (sel : bool)                     (* lowerLevelSnapshot = ... *)
| PSetDirty (d : list nat).

(* created by OpenFile(O_CREATE|O_TRUNC), header page not (completely) written *)
Definition created_file : file :=
  {| f_exists := true; f_refs := 1; f_doomed := false; f_header := false;
     f_footers := []; f_unsynced := [] |}.

Section Exec.
  Variables (f g c m : nat).

  Definition exec (p : prim) (s : state) : state :=
    match p with
    | PFile sel F => map_file s (pk sel f g) F
    | PCreate true => map_file s g (fun _ => fresh_file)
    | PCreate false => s
    | PObjInc sel => obj_addref s (pk sel c m)
    | PObjDec sel => obj_decref s (pk sel c m)
    | PAlloc tsel ct =>
        map_obj s m (fun _ => {| o_file := Some (pk tsel f g); o_content := ct; o_refs := 1 |})
    | PBumpId => bump_id s
    | PBumpNf => bump_nfiles s
    | PSetSc sel => set_scur s (pk sel c m)
    | PSetLc sel => set_lcur s (pk sel c m)
    | PSetDirty d => set_dirty s d
    end.

  (* crash points inside a primitive *)
  Definition torn (p : prim) (s : state) : list state :=
    match p with
    | PCreate _ => [map_file s g (fun _ => created_file)]
    | _ => []
    end.

  Fixpoint exec_all (p : list prim) (s : state) : state :=
    match p with
    | [] => s
    | x :: r => exec_all r (exec x s)
    end.

  (* every crash point of the program, in time order; the last one is exec_all *)
  Fixpoint states_of (p : list prim) (s : state) : list state :=
    s :: match p with
         | [] => []
         | x :: r => torn x s ++ states_of r (exec x s)
         end.
End Exec.

Section Prog.
  Variables (o : opts) (fo : oracle) (n : nat).
  Variable P : list nat.     (* content of the footer this round writes *)
  Variable nid : nat.        (* its id *)

  (* startFileLOCKED *)
  Definition prog_start_file : list prim * bool :=
    if fl fo n SOpen then ([PBumpNf], false)
    else if fl fo n SHeader then ([PBumpNf; PCreate false], false)
    else ([PBumpNf; PCreate true], true).

  (* startOrReuseFile *)
  Definition prog_start_or_reuse (hasfile : bool) : list prim * bool :=
    if hasfile then ([PFile false file_inc], true) else prog_start_file.

  (* persistFooter on the file t *)
  Definition prog_footer (nosync : bool) (t : bool) : list prim * bool :=
    if negb nosync && fl fo n SSync1 then ([], false)
    else
      let p1 := if nosync then [] else [PFile t file_sync] in
      if fl fo n SFootStat || fl fo n SFootWrite then (p1, false)
      else
        let p2 := p1 ++ [PFile t (file_addfoot {| d_id := nid; d_content := P |})] in
        if negb nosync && fl fo n SSync2 then (p2, false)
        else (p2 ++ (if nosync then [] else [PFile t file_sync]), true).

  (* persist, append path; the target file is f, or g when nothing is served from a file *)
  Definition prog_append (hasfile : bool) : list prim * bool :=
    let st := prog_start_or_reuse hasfile in
    if negb (snd st) then (fst st, false)
    else
      let t := negb hasfile in
      let fin := [PFile t file_dec] in
      if fl fo n SSegStat || fl fo n SSegWrite then (fst st ++ fin, false)
      else if fl fo n SLoadStat || fl fo n SMmap then (fst st ++ fin, false)
      else
        let p1 := fst st ++ [PBumpId; PFile t file_inc; PAlloc t P] in
        let pf := prog_footer (noSync o) t in
        if snd pf
        then (p1 ++ fst pf ++ [PObjInc true; PSetSc true; PObjDec false] ++ fin, true)
        else (p1 ++ fst pf ++ [PObjDec true] ++ fin, false).

  (* compactMaybe + compact *)
  Definition prog_compact (full hasfile : bool) : list prim * bool :=
    let st := if full then prog_start_file else prog_start_or_reuse hasfile in
    if negb (snd st) then (fst st, false)
    else
      let t := full || negb hasfile in
      let fin := [PFile t file_dec] in
      let cleanup := if full then (if fl fo n SRmStat then [] else [PFile t file_doom]) else [] in
      if fl fo n SWStat || (midSync o && fl fo n SWSync) || fl fo n SWData
      then (fst st ++ cleanup ++ fin, false)
      else
        let nosync := noSync o && negb (compactionSync o) in
        let pf := prog_footer nosync t in
        if negb (snd pf) then (fst st ++ [PBumpId] ++ fst pf ++ cleanup ++ fin, false)
        else if fl fo n SLoadStat || fl fo n SMmap
        then (fst st ++ [PBumpId] ++ fst pf ++ cleanup ++ fin, false)
        else (fst st ++ [PBumpId] ++ fst pf
                ++ [PFile t file_inc; PAlloc t P; PSetSc true; PObjDec false] ++ fin
                ++ (if full && hasfile
                    then (if fl fo n SRmOldStat then [] else [PFile false file_doom])
                    else [])
                ++ [PObjInc true], true).

  Definition prog_kind (k : round_kind) (hasfile : bool) : round_kind :=
    match k with
    | RPartial => if hasfile then (if fl fo n SFragStat then RFull else RPartial) else RAppend
    | _ => k
    end.

  (* one iteration of the persister, after the hand-over *)
  Definition round_prog (k : round_kind) (hasfile : bool) : list prim :=
    match k with
    | RNoop => [PObjInc false; PObjDec false]
    | _ =>
        let r := match prog_kind k hasfile with
                 | RAppend => prog_append hasfile
                 | RPartial => prog_compact false hasfile
                 | _ => prog_compact true hasfile
                 end in
        if snd r then fst r ++ [PSetLc true; PSetDirty []; PObjDec false] else fst r
    end.
End Prog.

(* the state the round starts from: the dirty stack has been handed over *)
Definition handed (n : nat) (k : round_kind) (st : state) : state :=
  match k with RNoop => st | _ => hand_over n st end.

Definition has_file (st : state) : bool :=
  match o_file (objs st (s_cur st)) with Some _ => true | None => false end.

(* the served file, or an index no round touches when nothing is served from a file *)
Definition served_ix (st : state) : nat :=
  match o_file (objs st (s_cur st)) with Some f => f | None => S (nfiles st) end.

Definition round_content (st : state) : list nat := o_content (objs st (s_cur st)) ++ dirty st.

Definition the_prog (o : opts) (fo : oracle) (n : nat) (k : round_kind) (st0 : state) : list prim :=
  round_prog o fo n (round_content st0) (next_id st0) k (has_file st0).

(* CRASH POINTS of attempt n with kind k started in the inter-round state st:
   position j of this list is the state after j state changes *)
Definition crash_states (o : opts) (fo : oracle) (n : nat) (k : round_kind) (st : state) : list state :=
  let st0 := handed n k st in
  states_of (served_ix st0) (nfiles st0) (s_cur st0) (next_id st0) (the_prog o fo n k st0) st0.

Definition round_end (o : opts) (fo : oracle) (n : nat) (k : round_kind) (st : state) : state :=
  let st0 := handed n k st in
  exec_all (served_ix st0) (nfiles st0) (s_cur st0) (next_id st0) (the_prog o fo n k st0) st0.

(* crash point (r, j) of a run: during attempt r (kinds ks; after the last
   attempt: an idle persister, RNoop), after j state changes *)
Definition crash_state (o : opts) (fo : oracle) (ks : list round_kind) (r j : nat) : option state :=
  nth_error (crash_states o fo r (nth r ks RNoop) (fst (run o fo 0 (firstn r ks) init))) j.

(* ------------------------------------------------------------------ *)
(* 2. Crash images                                                      *)

(* which complete footers of a file are found after the crash: those not in U
   (written before the last successful Sync) are; with the barrier a footer
   that is found reads as it was written *)
Inductive survive (barrier_holds : bool) (U : list nat) : list dfoot -> list dfoot -> Prop :=
| sv_nil : survive barrier_holds U [] []
| sv_lost d l l' :
    In (d_id d) U -> survive barrier_holds U l l' -> survive barrier_holds U (d :: l) l'
| sv_kept d d' l l' :
    d_id d' = d_id d -> (barrier_holds = true -> d' = d) ->
    survive barrier_holds U l l' -> survive barrier_holds U (d :: l) (d' :: l').

Definition img_file (barrier_holds nosync : bool) (x y : file) : Prop :=
  if nosync
  then f_exists y = f_exists x /\ f_header y = f_header x /\ f_footers y = f_footers x
  else (f_exists y = true -> f_exists x = true) /\
       (f_header y = true -> f_header x = true) /\
       survive barrier_holds (f_unsynced x) (f_footers x) (f_footers y) /\
       (barrier_holds = true -> f_exists x = true -> f_footers y <> [] ->
        f_exists y = true /\ f_header y = true).

(* img i is what is left of file number i *)
Definition crash_image (barrier_holds : bool) (o : opts) (s : state) (img : nat -> file) : Prop :=
  forall i, img_file barrier_holds (noSync o) (files s i) (img i).

(* a weaker file system: an unlink that was not followed by a sync of the
   DIRECTORY may be undone by the crash (moss never syncs the directory) *)
Definition img_file_undo (x y : file) : Prop :=
  f_header y = f_header x /\ f_footers y = f_footers x /\ f_unsynced x = [] /\
  (f_exists x = true -> f_exists y = true).

(* ------------------------------------------------------------------ *)
(* 3. OpenStore on the image                                            *)

Definition reopen_image (s : state) (img : nat -> file) : reopen_result :=
  reopen (set_files s img).

(* a is what was served after a prefix of the batches in b *)
Definition prefix (a b : list nat) : Prop := exists r, b = a ++ r.

(* the verdict: OpenStore serves the content after a prefix of the batches
   handed to the persister (`upper`), no shorter than `lower`; an empty or
   unopenable directory is acceptable only while nothing was ever committed *)
Definition crash_ok (never_committed : Prop) (lower upper : list nat) (r : reopen_result) : Prop :=
  match r with
  | ReopenServes _ d => prefix lower (d_content d) /\ prefix (d_content d) upper
  | _ => never_committed
  end.
