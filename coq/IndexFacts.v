(* IndexFacts.v — the segment key index never changes what a lookup returns.

   Main results (all closed under the global context):
     C14_window            the window returned by lookup / searchIndex
     C14_no_index_correct  plain binary searches = specifications
     C14_get_indep         findKeyPos does not depend on the index
     C14_start_indep       findStartKeyInclusivePos does not depend on the index
   plus the same three for EVERY well-formed (arbitrarily truncated) index
   (idx_wf), and "the fuel suffices" lemmas for the four loops. *)
From Coq Require Import List NArith Bool Arith Lia ZifyN ZifyNat.
From Moss Require Import Bytes BytesFacts Segment SegmentFacts Index.

(* ---------------------------------------------------------------------- *)
(* order helpers                                                            *)

Lemma blt_irrefl a : ~ blt a a.
Proof. unfold blt. rewrite bcmp_refl. discriminate. Qed.

Lemma blt_trans a b c : blt a b -> blt b c -> blt a c.
Proof. unfold blt. apply bcmp_trans. Qed.

Lemma blt_asym a b : blt a b -> blt b a -> False.
Proof. intros H1 H2. apply (blt_irrefl a). eapply blt_trans; eauto. Qed.

Lemma blt_not_ble a b : blt a b -> ble b a -> False.
Proof. unfold blt, ble. intros H1 H2. apply bcmp_lt_gt in H1. contradiction. Qed.

Lemma bltb_false_ble a b : bltb a b = false -> ble b a.
Proof.
  unfold bltb, ble. destruct (bcmp a b) eqn:E; try discriminate; intros _.
  - apply bcmp_eq in E; subst. rewrite bcmp_refl. discriminate.
  - apply bcmp_gt_lt in E. rewrite E. discriminate.
Qed.

Lemma bltb_true_blt a b : bltb a b = true -> blt a b.
Proof. apply bltb_true. Qed.

Lemma bltb_false_not_blt a b : bltb a b = false -> ~ blt a b.
Proof. intros H1 H2. apply bltb_true in H2. congruence. Qed.

Lemma blt_ble_trans a b c : blt a b -> ble b c -> blt a c.
Proof. unfold blt, ble. apply bcmp_lt_le_trans. Qed.

Lemma ble_blt_trans a b c : ble a b -> blt b c -> blt a c.
Proof. unfold blt, ble. apply bcmp_le_lt_trans. Qed.

Lemma blt_ble a b : blt a b -> ble a b.
Proof. unfold blt, ble. intros ->. discriminate. Qed.

Lemma ble_refl a : ble a a.
Proof. unfold ble. rewrite bcmp_refl. discriminate. Qed.

(* ---------------------------------------------------------------------- *)
(* midpoints                                                                *)

Lemma half_bounds i j : i < j -> i <= i + (j - i) / 2 /\ i + (j - i) / 2 < j.
Proof.
  intros H. assert (Hd : (j - i) / 2 < j - i) by (apply Nat.div_lt; lia). lia.
Qed.

Lemma half_eq i j : i < j -> i = i + (j - i) / 2 -> j = i + 1.
Proof.
  intros H E. assert (Z : (j - i) / 2 = 0) by lia.
  apply Nat.div_small_iff in Z; lia.
Qed.

(* ---------------------------------------------------------------------- *)
(* ascending lists, by position                                             *)

Lemma asc_nth_mono ks : asc ks -> forall p q, p < q -> q < length ks ->
  blt (skey ks p) (skey ks q).
Proof.
  unfold skey. induction ks as [|a ks IH]; intros Ha p q Hpq Hq; simpl in Hq; [lia|].
  destruct q as [|q]; [lia|]. destruct p as [|p]; simpl.
  - eapply asc_head_lt; eauto. apply nth_In. lia.
  - apply IH; [eapply asc_tail; eauto | lia | lia].
Qed.

Lemma asc_nth_lt_inv ks : asc ks -> forall p q, p < length ks -> q < length ks ->
  blt (skey ks p) (skey ks q) -> p < q.
Proof.
  intros Ha p q Hp Hq H. destruct (lt_eq_lt_dec p q) as [[Hlt|Heq]|Hgt]; auto.
  - subst. exfalso. eapply blt_irrefl; eauto.
  - exfalso. eapply blt_asym; eauto. apply asc_nth_mono; auto.
Qed.

Lemma asc_nth_inj ks : asc ks -> forall p q, p < length ks -> q < length ks ->
  skey ks p = skey ks q -> p = q.
Proof.
  intros Ha p q Hp Hq H. destruct (lt_eq_lt_dec p q) as [[Hlt|Heq]|Hgt]; auto; exfalso.
  - apply (asc_nth_mono ks Ha p q) in Hlt; auto. rewrite H in Hlt. eapply blt_irrefl; eauto.
  - apply (asc_nth_mono ks Ha q p) in Hgt; auto. rewrite H in Hgt. eapply blt_irrefl; eauto.
Qed.

(* everything left of a key <= probe is < probe *)
Lemma left_ok ks key a : asc ks -> a < length ks -> ble (skey ks a) key ->
  forall p, p < a -> blt (skey ks p) key.
Proof.
  intros Ha Hlen Hle p Hp. eapply blt_ble_trans; [|exact Hle]. apply asc_nth_mono; auto.
Qed.

(* everything from a key > probe on is > probe *)
Lemma right_ok ks key b : asc ks -> b < length ks -> blt key (skey ks b) ->
  forall p, b <= p -> p < length ks -> blt key (skey ks p).
Proof.
  intros Ha Hlen Hlt p Hp Hpn. destruct (Nat.eq_dec b p) as [->|Hne]; auto.
  eapply blt_trans; [exact Hlt|]. apply asc_nth_mono; auto. lia.
Qed.

(* everything strictly right of a key >= probe is > probe *)
Lemma right_ok_strict ks key b : asc ks -> b < length ks -> ble key (skey ks b) ->
  forall p, b < p -> p < length ks -> blt key (skey ks p).
Proof.
  intros Ha Hlen Hle p Hp Hpn. eapply ble_blt_trans; [exact Hle|]. apply asc_nth_mono; auto.
Qed.

(* ---------------------------------------------------------------------- *)
(* lower_bound                                                              *)

Lemma lower_bound_cons k ks key :
  lower_bound (k :: ks) key =
  if bltb k key then S (lower_bound ks key) else lower_bound ks key.
Proof. unfold lower_bound. simpl. destruct (bltb k key); reflexivity. Qed.

Lemma lower_bound_le ks key : lower_bound ks key <= length ks.
Proof.
  induction ks as [|k ks IH]; [unfold lower_bound; simpl; lia|].
  rewrite lower_bound_cons. simpl. destruct (bltb k key); lia.
Qed.

Lemma lower_bound_none ks key :
  (forall x, In x ks -> bltb x key = false) -> lower_bound ks key = 0.
Proof.
  induction ks as [|k ks IH]; intros H; [reflexivity|].
  rewrite lower_bound_cons, (H k) by (simpl; auto). apply IH. intros x Hx. apply H. simpl; auto.
Qed.

Lemma lower_bound_tail_zero k ks key :
  asc (k :: ks) -> bltb k key = false -> lower_bound ks key = 0.
Proof.
  intros Ha Hk. apply lower_bound_none. intros x Hx.
  destruct (bltb x key) eqn:E; auto. exfalso.
  apply bltb_true_blt in E. apply (bltb_false_not_blt _ _ Hk).
  eapply blt_trans; [|exact E]. eapply asc_head_lt; eauto.
Qed.

(* the characteristic property: position p is below the bound iff its key
   is smaller than the probe *)
Lemma lower_bound_spec ks key : asc ks -> forall p, p < length ks ->
  (p < lower_bound ks key <-> blt (skey ks p) key).
Proof.
  unfold skey. induction ks as [|k ks IH]; intros Ha p Hp; simpl in Hp; [lia|].
  rewrite lower_bound_cons. destruct (bltb k key) eqn:Ek.
  - destruct p as [|p]; simpl.
    + split; [intros _; apply bltb_true_blt; auto | lia].
    + rewrite <- IH; [lia | eapply asc_tail; eauto | lia].
  - rewrite (lower_bound_tail_zero k ks key Ha Ek).
    split; [lia|]. intros H. exfalso. destruct p as [|p]; simpl in H.
    + eapply bltb_false_not_blt; eauto.
    + apply (bltb_false_not_blt _ _ Ek). eapply blt_trans; [|exact H].
      eapply asc_head_lt; eauto. apply nth_In. lia.
Qed.

Lemma lower_bound_unique ks key L : asc ks -> L <= length ks ->
  (forall p, p < L -> blt (skey ks p) key) ->
  (forall p, L <= p -> p < length ks -> ~ blt (skey ks p) key) ->
  lower_bound ks key = L.
Proof.
  intros Ha HL Hlo Hhi. pose proof (lower_bound_le ks key) as Hle.
  destruct (lt_eq_lt_dec (lower_bound ks key) L) as [[Hlt|Heq]|Hgt]; auto; exfalso.
  - assert (Hb : blt (skey ks (lower_bound ks key)) key) by (apply Hlo; auto).
    apply lower_bound_spec in Hb; auto; lia.
  - apply (Hhi L); try lia. apply lower_bound_spec; auto. lia.
Qed.

Lemma lower_bound_at ks h : asc ks -> h < length ks -> lower_bound ks (skey ks h) = h.
Proof.
  intros Ha Hh. apply lower_bound_unique; auto; try lia.
  - intros p Hp. apply asc_nth_mono; auto.
  - intros p Hp Hpn Hb. apply asc_nth_lt_inv in Hb; auto. lia.
Qed.

(* lower_bound is Go's "first position whose key is >= probe" *)
Lemma lower_bound_first_geq ks key : asc ks -> lower_bound ks key = first_geq ks key.
Proof.
  induction ks as [|k ks IH]; intros Ha; [reflexivity|].
  rewrite lower_bound_cons. simpl. destruct (bltb k key) eqn:Ek.
  - f_equal. apply IH. eapply asc_tail; eauto.
  - eapply lower_bound_tail_zero; eauto.
Qed.

(* ---------------------------------------------------------------------- *)
(* position                                                                 *)

Lemma position_some ks key p : position ks key = Some p ->
  p < length ks /\ skey ks p = key.
Proof.
  unfold skey. revert p; induction ks as [|k ks IH]; intros p; simpl; [discriminate|].
  destruct (beqb k key) eqn:E.
  - intros [= <-]. apply beqb_true in E. split; [lia|auto].
  - destruct (position ks key) as [q|]; simpl; [|discriminate].
    intros [= <-]. destruct (IH q eq_refl) as [H1 H2]. split; [lia|auto].
Qed.

Lemma position_nth ks p : asc ks -> p < length ks -> position ks (skey ks p) = Some p.
Proof.
  unfold skey. intros Ha. apply asc_NoDup in Ha. revert p.
  induction ks as [|k ks IH]; intros p Hp; simpl in Hp; [lia|].
  inversion Ha as [|? ? Hnin Hnd]; subst. destruct p as [|p]; simpl.
  - now rewrite beqb_refl.
  - destruct (beqb k (nth p ks [])) eqn:E.
    + apply beqb_true in E. exfalso. apply Hnin. rewrite E. apply nth_In. lia.
    + rewrite IH; auto. lia.
Qed.

Lemma position_iff ks key p : asc ks ->
  (position ks key = Some p <-> nth_error ks p = Some key).
Proof.
  intros Ha. split.
  - intros H. apply position_some in H. destruct H as [H1 H2]. unfold skey in H2.
    rewrite <- H2. apply nth_error_nth'. auto.
  - intros H. assert (Hp : p < length ks) by (apply nth_error_Some; congruence).
    apply (nth_error_nth _ _ []) in H. rewrite <- H. apply position_nth; auto.
Qed.

(* ---------------------------------------------------------------------- *)
(* windows                                                                  *)

(* [l, r) is a sound search window for key: everything left of it is smaller
   than the probe, everything from r on is greater. *)
Definition window_ok (ks : list bytes) (key : bytes) (l r : nat) : Prop :=
  l <= r /\ r <= length ks /\
  (forall p, p < l -> blt (skey ks p) key) /\
  (forall p, r <= p -> p < length ks -> blt key (skey ks p)).

Lemma window_full ks key : window_ok ks key 0 (length ks).
Proof. repeat split; intros; lia. Qed.

Lemma window_present ks key l r p : window_ok ks key l r ->
  p < length ks -> skey ks p = key -> l <= p < r.
Proof.
  intros (Hlr & Hr & Hlo & Hhi) Hp Hk.
  destruct (lt_dec p l) as [H1|H1].
  { exfalso. apply Hlo in H1. rewrite Hk in H1. eapply blt_irrefl; eauto. }
  destruct (le_dec r p) as [H2|H2].
  { exfalso. apply Hhi in H2; auto. rewrite Hk in H2. eapply blt_irrefl; eauto. }
  lia.
Qed.

Lemma window_lower_bound ks key l r : asc ks -> window_ok ks key l r ->
  l <= lower_bound ks key <= r.
Proof.
  intros Ha (Hlr & Hr & Hlo & Hhi). split.
  - destruct l as [|l]; [lia|].
    assert (H : l < lower_bound ks key) by (apply lower_bound_spec; auto; lia). lia.
  - destruct (le_lt_dec (length ks) r) as [H|H].
    + pose proof (lower_bound_le ks key). lia.
    + destruct (le_lt_dec (lower_bound ks key) r) as [H1|H1]; auto. exfalso.
      apply lower_bound_spec in H1; auto. eapply blt_asym; [exact H1|]. apply Hhi; auto.
Qed.

Lemma window_point ks key l : asc ks -> window_ok ks key l l -> lower_bound ks key = l.
Proof. intros Ha H. pose proof (window_lower_bound ks key l l Ha H). lia. Qed.

(* ---------------------------------------------------------------------- *)
(* the two binary searches over a sound window                              *)

Lemma get_loop_eq ks key fuel i j :
  get_loop ks key fuel i j =
  if j <=? i then Some None
  else match fuel with
       | 0 => None
       | S f =>
           let h := i + (j - i) / 2 in
           match bcmp (skey ks h) key with
           | Eq => Some (Some h)
           | Lt => get_loop ks key f (h + 1) j
           | Gt => get_loop ks key f i h
           end
       end.
Proof. destruct fuel; reflexivity. Qed.

Lemma start_loop_eq ks key fuel i j :
  start_loop ks key fuel i j =
  if j <=? i then Some i
  else match fuel with
       | 0 => None
       | S f =>
           let h := i + (j - i) / 2 in
           match bcmp (skey ks h) key with
           | Eq => Some h
           | Lt => start_loop ks key f (h + 1) j
           | Gt => start_loop ks key f i h
           end
       end.
Proof. destruct fuel; reflexivity. Qed.

(* the fuel j - i is enough, whatever the list (no hypothesis) *)
Lemma get_loop_fuel ks key : forall fuel i j, j - i <= fuel ->
  get_loop ks key fuel i j <> None.
Proof.
  induction fuel as [|f IH]; intros i j Hf; rewrite get_loop_eq;
    destruct (Nat.leb_spec j i) as [Hji|Hij]; try discriminate; [lia|].
  cbv zeta. destruct (half_bounds i j Hij) as [H1 H2].
  destruct (bcmp _ key); [discriminate | apply IH; lia | apply IH; lia].
Qed.

Lemma start_loop_fuel ks key : forall fuel i j, j - i <= fuel ->
  start_loop ks key fuel i j <> None.
Proof.
  induction fuel as [|f IH]; intros i j Hf; rewrite start_loop_eq;
    destruct (Nat.leb_spec j i) as [Hji|Hij]; try discriminate; [lia|].
  cbv zeta. destruct (half_bounds i j Hij) as [H1 H2].
  destruct (bcmp _ key); [discriminate | apply IH; lia | apply IH; lia].
Qed.

(* narrowing a window at a probed position *)
Lemma window_narrow_left ks key i j h : asc ks -> window_ok ks key i j ->
  i <= h < j -> bcmp (skey ks h) key = Lt -> window_ok ks key (h + 1) j.
Proof.
  intros Ha (Hlr & Hr & Hlo & Hhi) Hh E. repeat split; auto; try lia.
  intros p Hp. destruct (Nat.eq_dec p h) as [->|Hne]; [exact E|].
  apply (left_ok ks key h); auto; try lia. apply blt_ble. exact E.
Qed.

Lemma window_narrow_right ks key i j h : asc ks -> window_ok ks key i j ->
  i <= h < j -> bcmp (skey ks h) key = Gt -> window_ok ks key i h.
Proof.
  intros Ha (Hlr & Hr & Hlo & Hhi) Hh E. repeat split; auto; try lia.
  intros p Hp Hpn. apply (right_ok ks key h); auto; try lia. apply bcmp_gt_lt. exact E.
Qed.

Lemma get_loop_ok ks key : asc ks -> forall fuel i j, j - i <= fuel ->
  window_ok ks key i j -> get_loop ks key fuel i j = Some (position ks key).
Proof.
  intros Ha. induction fuel as [|f IH]; intros i j Hf Hw; rewrite get_loop_eq;
    destruct (Nat.leb_spec j i) as [Hji|Hij].
  - f_equal. destruct (position ks key) as [p|] eqn:E; auto.
    apply position_some in E. destruct E as [E1 E2].
    pose proof (window_present _ _ _ _ _ Hw E1 E2). lia.
  - lia.
  - f_equal. destruct (position ks key) as [p|] eqn:E; auto.
    apply position_some in E. destruct E as [E1 E2].
    pose proof (window_present _ _ _ _ _ Hw E1 E2). lia.
  - cbv zeta. destruct (half_bounds i j Hij) as [H1 H2].
    set (h := i + (j - i) / 2) in *.
    assert (Hhn : h < length ks) by (destruct Hw as (_ & Hr & _); lia).
    destruct (bcmp (skey ks h) key) eqn:E.
    + apply bcmp_eq in E. subst key. now rewrite position_nth.
    + apply IH; [lia|]. eapply window_narrow_left; eauto.
    + apply IH; [lia|]. eapply window_narrow_right; eauto.
Qed.

Lemma start_loop_ok ks key : asc ks -> forall fuel i j, j - i <= fuel ->
  window_ok ks key i j -> start_loop ks key fuel i j = Some (lower_bound ks key).
Proof.
  intros Ha. induction fuel as [|f IH]; intros i j Hf Hw; rewrite start_loop_eq;
    destruct (Nat.leb_spec j i) as [Hji|Hij].
  - f_equal. assert (i = j) by (destruct Hw; lia). subst j.
    symmetry. apply window_point; auto.
  - lia.
  - f_equal. assert (i = j) by (destruct Hw; lia). subst j.
    symmetry. apply window_point; auto.
  - cbv zeta. destruct (half_bounds i j Hij) as [H1 H2].
    set (h := i + (j - i) / 2) in *.
    assert (Hhn : h < length ks) by (destruct Hw as (_ & Hr & _); lia).
    destruct (bcmp (skey ks h) key) eqn:E.
    + apply bcmp_eq in E. subst key. now rewrite lower_bound_at.
    + apply IH; [lia|]. eapply window_narrow_left; eauto.
    + apply IH; [lia|]. eapply window_narrow_right; eauto.
Qed.

(* a probe smaller than the first key is absent and has lower bound 0 *)
Lemma below_first_window ks key : asc ks -> 0 < length ks -> blt key (skey ks 0) ->
  window_ok ks key 0 0.
Proof.
  intros Ha Hn Hb. repeat split; try lia.
  intros p _ Hp. apply (right_ok ks key 0); auto. lia.
Qed.

(* findKeyPos / findStartKeyInclusivePos are correct for ANY sound window
   handed to them by searchIndex *)
Lemma find_key_pos_correct oidx ks key : asc ks ->
  (forall l r, search_index oidx (length ks) key = (l, r) -> window_ok ks key l r) ->
  find_key_pos oidx ks key = position ks key.
Proof.
  intros Ha Hw. unfold find_key_pos. destruct ks as [|k0 rest]; [reflexivity|].
  set (ks := k0 :: rest) in *.
  destruct (bltb key k0) eqn:E0.
  - apply bltb_true_blt in E0.
    assert (W0 : window_ok ks key 0 0) by (apply below_first_window; auto; simpl; lia).
    destruct (position ks key) as [p|] eqn:E; auto.
    apply position_some in E. destruct E as [E1 E2].
    pose proof (window_present _ _ _ _ _ W0 E1 E2). lia.
  - destruct (search_index oidx (length ks) key) as [i j] eqn:W.
    specialize (Hw i j eq_refl).
    destruct (Nat.eqb_spec i j) as [Hij|Hij].
    + subst j. destruct (position ks key) as [p|] eqn:E; auto.
      apply position_some in E. destruct E as [E1 E2].
      pose proof (window_present _ _ _ _ _ Hw E1 E2). lia.
    + rewrite (get_loop_ok ks key Ha (j - i) i j); auto.
Qed.

Lemma find_start_pos_correct oidx ks key : asc ks ->
  (forall l r, search_index oidx (length ks) key = (l, r) -> window_ok ks key l r) ->
  find_start_pos oidx ks key = lower_bound ks key.
Proof.
  intros Ha Hw. unfold find_start_pos.
  destruct (search_index oidx (length ks) key) as [i j] eqn:W.
  specialize (Hw i j eq_refl).
  destruct (Nat.eqb_spec i j) as [Hij|Hij].
  - subst j. symmetry. apply window_point; auto.
  - destruct (bltb key (skey ks 0)) eqn:E0.
    + apply bltb_true_blt in E0.
      assert (Hn : 0 < length ks) by (destruct Hw as (? & ? & _); lia).
      pose proof (window_point ks key 0 Ha (below_first_window ks key Ha Hn E0)) as H0.
      pose proof (window_lower_bound ks key i j Ha Hw). lia.
    + rewrite (start_loop_ok ks key Ha (j - i) i j); auto.
Qed.

(* ---------------------------------------------------------------------- *)
(* C14_no_index_correct: the un-indexed searches are the specifications     *)

Theorem C14_no_index_correct ks key : asc ks ->
  find_key_pos None ks key = position ks key /\
  find_start_pos None ks key = lower_bound ks key.
Proof.
  intros Ha. split.
  - apply find_key_pos_correct; auto. simpl. intros l r [= <- <-]. apply window_full.
  - apply find_start_pos_correct; auto. simpl. intros l r [= <- <-]. apply window_full.
Qed.
Print Assumptions C14_no_index_correct.

(* ---------------------------------------------------------------------- *)
(* well-formed indexes: the keys at positions 0, hop, 2*hop, ... truncated  *)
(* anywhere                                                                 *)

Definition idx_wf (ks : list bytes) (idx : index) : Prop :=
  1 <= ix_hop idx /\
  ix_src idx = length ks /\
  forall t, t < length (ix_keys idx) ->
    t * ix_hop idx < length ks /\ ikey (ix_keys idx) t = skey ks (t * ix_hop idx).

Lemma lookup_loop_eq keys hop key fuel i j :
  lookup_loop keys hop key fuel i j =
  if j <=? i then Some (i * hop, j * hop)
  else match fuel with
       | 0 => None
       | S f =>
           let h := i + (j - i) / 2 in
           match bcmp (ikey keys h) key with
           | Eq => Some (h * hop, h * hop + 1)
           | Lt => if i =? h then Some (i * hop, j * hop)
                   else lookup_loop keys hop key f h j
           | Gt => lookup_loop keys hop key f i h
           end
       end.
Proof. destruct fuel; reflexivity. Qed.

(* fuel = numKeys suffices for lookup's loop, whatever the index *)
Lemma lookup_loop_fuel keys hop key : forall fuel i j, j - i <= fuel ->
  lookup_loop keys hop key fuel i j <> None.
Proof.
  induction fuel as [|f IH]; intros i j Hf; rewrite lookup_loop_eq;
    destruct (Nat.leb_spec j i) as [Hji|Hij]; try discriminate; [lia|].
  cbv zeta. destruct (half_bounds i j Hij) as [H1 H2].
  destruct (bcmp _ key); [discriminate | | apply IH; lia].
  destruct (Nat.eqb_spec i (i + (j - i) / 2)) as [He|Hne]; [discriminate|].
  apply IH; lia.
Qed.

Lemma lookup_fuel idx key :
  lookup_loop (ix_keys idx) (ix_hop idx) key
              (length (ix_keys idx)) 0 (length (ix_keys idx)) <> None.
Proof. apply lookup_loop_fuel. lia. Qed.

Section LookupLoop.
  Variables (ks : list bytes) (key : bytes) (keys : list bytes) (hop : nat).
  Hypothesis Hasc : asc ks.
  Hypothesis Hhop : 1 <= hop.
  Hypothesis Hkeys : forall t, t < length keys ->
    t * hop < length ks /\ ikey keys t = skey ks (t * hop).
  (* the early return "last indexed key < key" was not taken *)
  Hypothesis Hlast : ble key (ikey keys (length keys - 1)).

  Lemma lookup_loop_ok : forall fuel i j l r,
    i < j -> j <= length keys ->
    ble (ikey keys i) key ->
    (j < length keys -> blt key (ikey keys j)) ->
    lookup_loop keys hop key fuel i j = Some (l, r) ->
    window_ok ks key l r.
  Proof.
    induction fuel as [|f IH]; intros i j l r Hij Hj Hi Hjk; rewrite lookup_loop_eq;
      destruct (Nat.leb_spec j i) as [Hji|_]; try lia; try discriminate.
    cbv zeta. destruct (half_bounds i j Hij) as [H1 H2].
    set (h := i + (j - i) / 2) in *.
    destruct (Hkeys h ltac:(lia)) as [Hhn Hhk].
    destruct (bcmp (ikey keys h) key) eqn:E.
    - (* direct hit *)
      intros [= <- <-]. apply bcmp_eq in E. rewrite Hhk in E. subst key.
      repeat split; try lia.
      + intros p Hp. apply asc_nth_mono; auto.
      + intros p Hp Hpn. apply asc_nth_mono; auto. lia.
    - destruct (Nat.eqb_spec i h) as [Heq|Hne].
      + (* break: i = h, hence j = i + 1 *)
        intros [= <- <-]. apply half_eq in Heq; auto.
        destruct (Nat.eq_dec j (length keys)) as [Hjm|Hjm].
        * exfalso. replace (length keys - 1) with h in Hlast by lia.
          eapply blt_not_ble; [exact E | exact Hlast].
        * destruct (Hkeys j ltac:(lia)) as [Hjn Hjkey].
          destruct (Hkeys i ltac:(lia)) as [Hin Hikey].
          specialize (Hjk ltac:(lia)). rewrite Hjkey in Hjk. rewrite Hikey in Hi.
          assert (Hmul : i * hop <= j * hop) by (apply Nat.mul_le_mono_r; lia).
          repeat split; try lia.
          -- apply left_ok; auto.
          -- apply right_ok; auto.
      + apply IH; auto; try lia. apply blt_ble. exact E.
    - assert (Hih : i <> h).
      { intros Heq. apply bcmp_gt_lt in E. rewrite <- Heq in E.
        eapply blt_not_ble; [exact E | exact Hi]. }
      apply IH; auto; try lia. intros _. apply bcmp_gt_lt. exact E.
  Qed.
End LookupLoop.

(* the window of segmentKeysIndex.lookup is sound for every well-formed,
   arbitrarily truncated index *)
Lemma lookup_window ks key idx l r : asc ks -> idx_wf ks idx ->
  lookup idx key = (l, r) -> window_ok ks key l r.
Proof.
  intros Ha (Hhop & Hsrc & Hkeys). unfold lookup. rewrite Hsrc.
  destruct (Nat.ltb_spec (length (ix_keys idx)) 2) as [Hn|Hn].
  { intros [= <- <-]. apply window_full. }
  destruct (Hkeys 0 ltac:(lia)) as [H0n H0k]. simpl in H0n, H0k.
  destruct (bltb key (ikey (ix_keys idx) 0)) eqn:E0.
  { intros [= <- <-]. apply bltb_true_blt in E0. rewrite H0k in E0.
    apply below_first_window; auto. }
  apply bltb_false_ble in E0.
  destruct (Hkeys (length (ix_keys idx) - 1) ltac:(lia)) as [HLn HLk].
  destruct (bltb (ikey (ix_keys idx) (length (ix_keys idx) - 1)) key) eqn:EL.
  { intros [= <- <-]. apply bltb_true_blt in EL. rewrite HLk in EL.
    repeat split; try lia.
    intros p Hp. apply (left_ok ks key ((length (ix_keys idx) - 1) * ix_hop idx)); auto.
    apply blt_ble. exact EL. }
  apply bltb_false_ble in EL.
  destruct (lookup_loop _ _ key _ 0 _) as [[l' r']|] eqn:EW.
  - intros [= <- <-].
    eapply (lookup_loop_ok ks key (ix_keys idx) (ix_hop idx) Ha Hhop Hkeys EL); [| | | |exact EW];
      auto; lia.
  - intros [= <- <-]. apply window_full.
Qed.

(* ---------------------------------------------------------------------- *)
(* build_index produces a well-formed index                                 *)

Definition binv (ks : list bytes) (b : builder) (curr : nat) : Prop :=
  idx_wf ks (bd_idx b) /\ curr = length (ix_keys (bd_idx b)) * ix_hop (bd_idx b).

Lemma add_hop b i key ok b' : add b i key = (ok, b') ->
  ix_hop (bd_idx b') = ix_hop (bd_idx b).
Proof.
  unfold add. destruct (_ <=? _)%N; [intros [= <- <-]; auto|].
  destruct (_ <? _)%N; [intros [= <- <-]; auto|].
  destruct (negb _); intros [= <- <-]; auto.
Qed.

Lemma ikey_app_old keys k t : t < length keys -> ikey (keys ++ [k]) t = ikey keys t.
Proof. intros H. unfold ikey. apply app_nth1. auto. Qed.

Lemma ikey_app_new keys k : ikey (keys ++ [k]) (length keys) = k.
Proof. unfold ikey. rewrite app_nth2, Nat.sub_diag; auto. Qed.

(* add at the cursor position: either refuses and changes nothing, or appends
   the key; "accepts without appending" (keyIdx % hop != 0) cannot happen *)
Lemma add_inv ks b curr key ok b' :
  binv ks b curr -> nth_error ks curr = Some key -> add b curr key = (ok, b') ->
  (ok = false /\ b' = b) \/
  (ok = true /\ binv ks b' (curr + ix_hop (bd_idx b'))).
Proof.
  intros ((Hhop & Hsrc & Hkeys) & Hcurr) Hnth. unfold add.
  destruct (_ <=? _)%N; [intros [= <- <-]; auto|].
  destruct (_ <? _)%N; [intros [= <- <-]; auto|].
  assert (Hmod : curr mod ix_hop (bd_idx b) = 0) by (subst curr; apply Nat.mod_mul; lia).
  rewrite Hmod. simpl. intros [= <- <-]. right. split; auto.
  assert (Hc : curr < length ks) by (apply nth_error_Some; congruence).
  apply (nth_error_nth _ _ []) in Hnth.
  unfold binv, idx_wf. simpl. rewrite app_length. simpl. repeat split; auto.
  - destruct (Nat.eq_dec t (length (ix_keys (bd_idx b)))) as [->|Hne]; [lia|].
    apply Hkeys. lia.
  - destruct (Nat.eq_dec t (length (ix_keys (bd_idx b)))) as [->|Hne].
    + rewrite ikey_app_new. unfold skey. rewrite <- Hcurr. auto.
    + rewrite ikey_app_old by lia. apply Hkeys. lia.
  - lia.
Qed.

Lemma build_loop_eq ks fuel b curr :
  build_loop ks fuel b curr =
  match nth_error ks curr with
  | None => Some b
  | Some key =>
      match fuel with
      | 0 => None
      | S f =>
          let (ok, b') := add b curr key in
          if negb ok then Some b'
          else
            let curr' := curr + ix_hop (bd_idx b') in
            if length ks <=? curr' then Some b' else build_loop ks f b' curr'
      end
  end.
Proof. destruct fuel; reflexivity. Qed.

Lemma build_loop_wf ks : forall fuel b curr b',
  binv ks b curr -> build_loop ks fuel b curr = Some b' -> idx_wf ks (bd_idx b').
Proof.
  induction fuel as [|f IH]; intros b curr b' Hb; rewrite build_loop_eq;
    destruct (nth_error ks curr) as [key|] eqn:En;
    try discriminate; try (intros [= <-]; exact (proj1 Hb)).
  destruct (add b curr key) as [ok b1] eqn:A.
  destruct (add_inv ks b curr key ok b1 Hb En A) as [[-> ->]|[-> Hb1]]; simpl.
  - intros [= <-]. exact (proj1 Hb).
  - destruct (_ <=? _).
    + intros [= <-]. exact (proj1 Hb1).
    + apply IH. exact Hb1.
Qed.

(* fuel = Len() suffices for the build loop whenever hop >= 1 *)
Lemma build_loop_fuel ks : forall fuel b curr,
  1 <= ix_hop (bd_idx b) -> length ks - curr <= fuel ->
  build_loop ks fuel b curr <> None.
Proof.
  induction fuel as [|f IH]; intros b curr Hhop Hf; rewrite build_loop_eq;
    destruct (nth_error ks curr) as [key|] eqn:En; try discriminate.
  - assert (curr < length ks) by (apply nth_error_Some; congruence). lia.
  - assert (Hc : curr < length ks) by (apply nth_error_Some; congruence).
    destruct (add b curr key) as [ok b1] eqn:A. pose proof (add_hop _ _ _ _ _ A) as Hh.
    destruct ok; simpl; [|discriminate].
    destruct (Nat.leb_spec (length ks) (curr + ix_hop (bd_idx b1))); [discriminate|].
    apply IH; lia.
Qed.

Lemma new_index_binv quota ks avg b :
  new_index quota (length ks) avg = Some b -> binv ks b 0.
Proof.
  unfold new_index. destruct (_ =? _)%N; [discriminate|]. intros [= <-].
  unfold binv, idx_wf. simpl. repeat split; try lia.
  generalize (N.of_nat (length ks) / (quota / (avg + 4)))%N. intros n. lia.
Qed.

Lemma build_index_wf quota min_key_bytes ks idx :
  build_index quota min_key_bytes ks = Some idx -> idx_wf ks idx.
Proof.
  unfold build_index. destruct (_ <? _)%N; [discriminate|].
  destruct (_ =? _)%N; [discriminate|].
  destruct (new_index _ _ _) as [b|] eqn:Enew; [|discriminate].
  apply new_index_binv in Enew.
  destruct (build_loop ks (length ks) b 0) as [b'|] eqn:EL; intros [= <-].
  - eapply build_loop_wf; eauto.
  - exact (proj1 Enew).
Qed.

(* the fall-back branch of build_index is dead code *)
Lemma build_index_fuel quota ks avg b :
  new_index quota (length ks) avg = Some b ->
  build_loop ks (length ks) b 0 <> None.
Proof.
  intros H. apply new_index_binv in H. destruct H as [(Hhop & _) _].
  apply build_loop_fuel; auto. lia.
Qed.

(* ---------------------------------------------------------------------- *)
(* C14: the window, and independence of the index                           *)

Lemma search_index_window oidx ks key l r : asc ks ->
  (forall idx, oidx = Some idx -> idx_wf ks idx) ->
  search_index oidx (length ks) key = (l, r) -> window_ok ks key l r.
Proof.
  intros Ha Hwf. destruct oidx as [idx|]; simpl.
  - apply lookup_window; auto.
  - intros [= <- <-]. apply window_full.
Qed.

(* Everything one may rely on about the window (leftPos, rightPos): it lies
   inside the segment, all keys left of it are smaller than the probe, all
   keys from rightPos on are greater; hence a present key lies inside it and
   the start position (lower bound) lies in [leftPos, rightPos].  This holds
   uniformly, including the (0,0) early return (probe below the first key,
   lower bound 0), the truncated index and the direct hit. *)
Theorem C14_window quota min_key_bytes ks key idx l r :
  asc ks ->
  build_index quota min_key_bytes ks = Some idx ->
  lookup idx key = (l, r) ->
  l <= r /\ r <= length ks /\
  (forall p, p < l -> blt (skey ks p) key) /\
  (forall p, r <= p -> p < length ks -> blt key (skey ks p)) /\
  (forall p, nth_error ks p = Some key -> l <= p < r) /\
  l <= lower_bound ks key <= r.
Proof.
  intros Ha Hb Hl. apply build_index_wf in Hb.
  pose proof (lookup_window ks key idx l r Ha Hb Hl) as Hw.
  pose proof Hw as (H1 & H2 & H3 & H4). repeat split; auto.
  - assert (Hp : p < length ks) by (apply nth_error_Some; congruence).
    apply (nth_error_nth _ _ []) in H. eapply window_present; eauto.
  - assert (Hp : p < length ks) by (apply nth_error_Some; congruence).
    apply (nth_error_nth _ _ []) in H. eapply window_present; eauto.
  - apply (window_lower_bound ks key l r Ha Hw).
  - apply (window_lower_bound ks key l r Ha Hw).
Qed.
Print Assumptions C14_window.

(* the same for any well-formed index, however truncated *)
Theorem C14_window_wf ks key idx l r :
  asc ks -> idx_wf ks idx -> lookup idx key = (l, r) -> window_ok ks key l r.
Proof. intros; eapply lookup_window; eauto. Qed.
Print Assumptions C14_window_wf.

Theorem C14_get_indep quota min_key_bytes ks key : asc ks ->
  find_key_pos (build_index quota min_key_bytes ks) ks key = position ks key.
Proof.
  intros Ha. apply find_key_pos_correct; auto. intros l r.
  apply search_index_window; auto. intros idx. apply build_index_wf.
Qed.
Print Assumptions C14_get_indep.

Theorem C14_start_indep quota min_key_bytes ks key : asc ks ->
  find_start_pos (build_index quota min_key_bytes ks) ks key = lower_bound ks key.
Proof.
  intros Ha. apply find_start_pos_correct; auto. intros l r.
  apply search_index_window; auto. intros idx. apply build_index_wf.
Qed.
Print Assumptions C14_start_indep.

Corollary C14_get_indep_none quota min_key_bytes ks key : asc ks ->
  find_key_pos (build_index quota min_key_bytes ks) ks key = find_key_pos None ks key.
Proof.
  intros Ha. rewrite C14_get_indep by auto. symmetry. apply C14_no_index_correct; auto.
Qed.

Corollary C14_start_indep_none quota min_key_bytes ks key : asc ks ->
  find_start_pos (build_index quota min_key_bytes ks) ks key = find_start_pos None ks key.
Proof.
  intros Ha. rewrite C14_start_indep by auto. symmetry. apply C14_no_index_correct; auto.
Qed.

(* for ANY well-formed index (any hop >= 1, truncated after any number of
   keys): covers every way the build loop may stop early *)
Theorem C14_get_indep_wf ks idx key : asc ks -> idx_wf ks idx ->
  find_key_pos (Some idx) ks key = position ks key.
Proof.
  intros Ha Hwf. apply find_key_pos_correct; auto. intros l r.
  apply search_index_window; auto. intros ? [= <-]. auto.
Qed.
Print Assumptions C14_get_indep_wf.

Theorem C14_start_indep_wf ks idx key : asc ks -> idx_wf ks idx ->
  find_start_pos (Some idx) ks key = lower_bound ks key.
Proof.
  intros Ha Hwf. apply find_start_pos_correct; auto. intros l r.
  apply search_index_window; auto. intros ? [= <-]. auto.
Qed.
Print Assumptions C14_start_indep_wf.

(* Get-level reading: with sorted unique keys, find (Segment.v) agrees with
   the position found through the index *)
Corollary C14_get_present quota min_key_bytes ks key : asc ks ->
  (exists p, find_key_pos (build_index quota min_key_bytes ks) ks key = Some p) <-> In key ks.
Proof.
  intros Ha. rewrite C14_get_indep by auto. split.
  - intros [p H]. apply position_iff in H; auto. eapply nth_error_In; eauto.
  - intros H. apply In_nth_error in H. destruct H as [p H]. exists p. apply position_iff; auto.
Qed.

(* ---------------------------------------------------------------------- *)
(* examples                                                                 *)

Definition k (n : N) : bytes := [n].
Definition ks10 : list bytes :=
  [ []; k 1; [1;1]%N; [1;2;3;4;5]%N; k 2; [2;0]%N; k 3; [3;3;3]%N; k 4; [5;1]%N ].

Example ks10_asc : asc ks10.
Proof. apply sorted_keys_asc. reflexivity. Qed.

(* totKeyByte = 18, avg = 1, slots = 40/5 = 8, hop = 10/8+1 = 2, capacity 8
   bytes: positions 0,2,4,6,8 are all indexed (0+2+1+1+1 bytes) *)
Example ex_full_index :
  build_index 40 0 ks10 = Some (mkIndex 2 10 [ []; [1;1]; k 2; k 3; k 4 ]%N).
Proof. vm_compute. reflexivity. Qed.

(* slots = 12/5 = 2, hop = 6, capacity 2 bytes: positions 0 and 6 *)
Example ex_hop6 : build_index 12 0 ks10 = Some (mkIndex 6 10 [ []; k 3 ]%N).
Proof. vm_compute. reflexivity. Qed.

(* slots = 20/5 = 4, hop = 3, capacity 4 bytes: position 0 (0 bytes) fits,
   position 3 (5 bytes) does not -> truncated after one key *)
Example ex_truncated_bytes : build_index 20 0 ks10 = Some (mkIndex 3 10 [ [] ]).
Proof. vm_compute. reflexivity. Qed.

(* slots = 15/5 = 3, hop = 10/3+1 = 4, capacity 3 bytes: positions 0, 4, 8
   (0+1+1 bytes) all fit *)
Example ex_hop4 : build_index 15 0 ks10 = Some (mkIndex 4 10 [ []; k 2; k 4 ]%N).
Proof. vm_compute. reflexivity. Qed.

(* an index truncated by byte space after TWO keys: tot 17, avg 2,
   slots = 30/6 = 5, hop = 8/5+1 = 2, capacity 10 bytes; positions 0, 2 fit
   (1+1 bytes), position 4 (10 bytes > 8 left) does not: positions 4.. are
   covered only by the "last indexed key < key" window (2, 8) *)
Definition ks8 : list bytes :=
  [ k 1; k 2; k 3; k 4; [5;5;5;5;5;5;5;5;5;5]; k 6; k 7; k 8 ]%N.
Example ex_trunc_two_keys : build_index 30 0 ks8 = Some (mkIndex 2 8 [ k 1; k 3 ]).
Proof. vm_compute. reflexivity. Qed.
Example ex_trunc_probe_tail :
  probe_all 30 0 ks8 (k 7) = ((true, 2, 2), (2, 8), Some 6, 6)%N.
Proof. vm_compute. reflexivity. Qed.
Example ex_trunc_probe_above_last :
  probe_all 30 0 ks8 (k 9) = ((true, 2, 2), (2, 8), None, 8)%N.
Proof. vm_compute. reflexivity. Qed.
Example ex_trunc_probe_last_indexed :              (* direct hit on the last indexed key *)
  probe_all 30 0 ks8 (k 3) = ((true, 2, 2), (2, 3), Some 2, 2)%N.
Proof. vm_compute. reflexivity. Qed.
Example ex_trunc_probe_between :
  probe_all 30 0 ks8 [2;1]%N = ((true, 2, 2), (0, 2), None, 2)%N.
Proof. vm_compute. reflexivity. Qed.
Example ex_trunc_probe_below_first :               (* (0,0) early return, empty probe *)
  probe_all 30 0 ks8 [] = ((true, 2, 2), (0, 0), None, 0)%N.
Proof. vm_compute. reflexivity. Qed.

Definition ks6 : list bytes := [ k 1; [2;2;2;2;2;2]; k 3; k 4; [5;5;5;5;5;5;5;5]; k 6 ]%N.
(* tot 18, avg 3, slots 21/7 = 3, hop 3, capacity 9: position 0 (1 byte),
   position 3 (1 byte); done.  With quota 14: slots 2, hop 4, cap 6: 0 and 4:
   position 4 has 8 bytes > 5 remaining -> truncated by byte space *)
Example ex_trunc2 : build_index 14 0 ks6 = Some (mkIndex 4 6 [ k 1 ]).
Proof. vm_compute. reflexivity. Qed.

Example ex_min_key_bytes : build_index 40 19 ks10 = None.
Proof. vm_compute. reflexivity. Qed.
Example ex_quota_small : build_index 4 0 ks10 = None.
Proof. vm_compute. reflexivity. Qed.
Example ex_empty : build_index 100 0 [] = None.
Proof. vm_compute. reflexivity. Qed.

(* probes through the hop-2 index: (indexed, hop, numKeys), window, get, start *)
Example ex_probe_direct_hit :                      (* indexed key: window of 1 *)
  probe_all 40 0 ks10 (k 2) = ((true, 2, 5), (4, 5), Some 4, 4)%N.
Proof. vm_compute. reflexivity. Qed.
Example ex_probe_between_present :                 (* present, not indexed *)
  probe_all 40 0 ks10 [2;0]%N = ((true, 2, 5), (4, 6), Some 5, 5)%N.
Proof. vm_compute. reflexivity. Qed.
Example ex_probe_between_absent :
  probe_all 40 0 ks10 [1;0]%N = ((true, 2, 5), (0, 2), None, 2)%N.
Proof. vm_compute. reflexivity. Qed.
Example ex_probe_above_last :
  probe_all 40 0 ks10 (k 9) = ((true, 2, 5), (8, 10), None, 10)%N.
Proof. vm_compute. reflexivity. Qed.
Example ex_probe_last_key :
  probe_all 40 0 ks10 [5;1]%N = ((true, 2, 5), (8, 10), Some 9, 9)%N.
Proof. vm_compute. reflexivity. Qed.
Example ex_probe_empty_key :                       (* "" is the first key here *)
  probe_all 40 0 ks10 [] = ((true, 2, 5), (0, 1), Some 0, 0)%N.
Proof. vm_compute. reflexivity. Qed.
(* below the first key: the (0,0) early return *)
Example ex_probe_below_first :
  probe_all 21 0 ks6 [] = ((true, 3, 2), (0, 0), None, 0)%N.
Proof. vm_compute. reflexivity. Qed.
Example ex_probe_below_first_0 :
  probe_all 21 0 ks6 (k 0) = ((true, 3, 2), (0, 0), None, 0)%N.
Proof. vm_compute. reflexivity. Qed.
(* truncated index with one key: window is the whole segment *)
Example ex_probe_truncated :
  probe_all 14 0 ks6 (k 4) = ((true, 4, 1), (0, 6), Some 3, 3)%N.
Proof. vm_compute. reflexivity. Qed.
(* hop 3, two indexed keys, probe beyond the last indexed key *)
Example ex_probe_hop3_tail :
  probe_all 21 0 ks6 [5;5]%N = ((true, 3, 2), (3, 6), None, 4)%N.
Proof. vm_compute. reflexivity. Qed.
Example ex_probe_no_index :
  probe_all 0 0 ks6 (k 3) = ((false, 0, 0), (0, 6), Some 2, 2)%N.
Proof. vm_compute. reflexivity. Qed.
