(* C17 -- the deferred-sort ticket protocol: mutants of the programs, each
   refuted by a computed schedule (found by [SortProto.search], replayed by
   [SortProto.replay]). *)

From Coq Require Import List ZArith.
Import ListNotations.
From Moss Require Import SortProto.

Definition wl2 (init : Z) (strict : bool) :=
  mk_loop (mk_bound BMax init) strict (mk_bound BMin 0) true AccDrop.
Definition es_with (l1 l2 : loop) := [EGuard; ESetSorted true; ELoop l1; EIf true [ELoop l2]].

Definition m_wait_strict := mk_progs request_sort_prog (es_with es_loop1 (wl2 0 true)) false.
Definition m_wait_low := mk_progs request_sort_prog (es_with es_loop1 (wl2 (-1) false)) false.
Definition m_assign :=
  mk_progs request_sort_prog
    (es_with (mk_loop (mk_bound BMax 0) false (mk_bound BMin 0) false AccAssign) es_loop2) false.
Definition m_rogue := mk_progs request_sort_prog ensure_sorted_prog true.
Definition m_else_sorts :=
  mk_progs (SIf (CNil NeedSorter) [SReturn true] [] :: SRecvVar NeedSorter ::
            SIf CVar rs_sorter [SDoSort; SReturn true] :: rs_tail3) ensure_sorted_prog false.
Definition m_close_first :=
  mk_progs (SIf (CNil NeedSorter) [SReturn true] [] :: SRecvVar NeedSorter ::
            SIf CVar [SClose WaitSorted; SDoSort; SReturn true] [] :: rs_tail3)
           ensure_sorted_prog false.

Definition refuted (P : progs) : Prop := exists c sch v, replay P c sch = Some v.

(* the blocking phase stops one segment too high (seg > minSeg: seeded C17-r2m2 / C02-r2m1) *)
Theorem m_wait_strict_refuted : refuted m_wait_strict.
Proof.
  exists (mk_config [KEnsure 0 0; KEnsure 0 0] [false]),
    [(1, 0); (1, 0); (0, 0); (0, 0); (1, 0); (0, 0); (1, 0); (0, 0); (1, 0); (0, 0); (1, 0); (0, 0); (0, 0); (0, 0); (0, 0); (0, 0); (0, 0); (0, 0); (0, 0); (0, 0)],
    (VReadUnsync 0 0).
  vm_compute. reflexivity.
Qed.

(* the blocking phase starts one segment too low (seg := maxSeg-1) *)
Theorem m_wait_low_refuted : refuted m_wait_low.
Proof.
  exists (mk_config [KEnsure 0 0; KEnsure 0 0] [false]),
    [(1, 0); (1, 0); (0, 0); (0, 0); (1, 0); (0, 0); (1, 0); (0, 0); (1, 0); (0, 0); (1, 0); (0, 0); (0, 0); (0, 0); (0, 0); (0, 0); (0, 0); (0, 0); (0, 0); (0, 0)],
    (VReadUnsync 0 0).
  vm_compute. reflexivity.
Qed.

(* only the oldest segment's answer counts (sorted = RequestSort(false): seeded C17-r4m2 / C03-m2) *)
Theorem m_assign_refuted : refuted m_assign.
Proof.
  exists (mk_config [KEnsure 0 1; KEnsure 0 1] [false; false]),
    [(1, 0); (1, 0); (0, 0); (0, 0); (1, 0); (0, 0); (1, 0); (0, 0); (1, 0); (0, 0); (1, 0); (0, 0); (0, 0); (0, 0); (0, 0); (0, 0); (0, 0); (0, 0); (0, 0); (0, 0); (0, 0); (0, 0); (0, 0); (0, 0); (0, 0); (0, 1)],
    (VReadUnsync 1 0).
  vm_compute. reflexivity.
Qed.

(* doSort() of a published segment outside RequestSort (go b.doSort(): seeded C17-m1) *)
Theorem m_rogue_refuted : refuted m_rogue.
Proof.
  exists (mk_config [KEnsure 0 0; KRogue 0] [false]),
    [(0, 0); (0, 0); (0, 0); (0, 0); (0, 0); (0, 0); (0, 0); (0, 0); (1, 0)],
    (VWriteWrite 0 1).
  vm_compute. reflexivity.
Qed.

(* the goroutine that did not get the ticket sorts too *)
Theorem m_else_sorts_refuted : refuted m_else_sorts.
Proof.
  exists (mk_config [KEnsure 0 0; KEnsure 0 0] [false]),
    [(1, 0); (1, 0); (0, 0); (0, 0); (1, 0); (0, 0); (1, 0); (0, 0); (1, 0); (0, 0); (1, 0); (0, 0); (1, 0); (0, 0); (1, 0); (0, 0)],
    (VWriteWrite 0 0).
  vm_compute. reflexivity.
Qed.

(* close(waitSortedCh) before doSort() *)
Theorem m_close_first_refuted : refuted m_close_first.
Proof.
  exists (mk_config [KEnsure 0 0; KEnsure 0 0] [false]),
    [(0, 0); (0, 0); (1, 0); (0, 0); (1, 0); (0, 0); (1, 0); (0, 0); (1, 0); (0, 0); (1, 0); (1, 0); (1, 0); (1, 0); (1, 0); (1, 0); (1, 0); (1, 0); (1, 0); (1, 0); (1, 0); (1, 0); (0, 0); (0, 0); (1, 0); (1, 0); (1, 0); (1, 0); (1, 0)],
    (VReadUnsync 0 1).
  vm_compute. reflexivity.
Qed.

(* the explorer on the current programs: every reachable state of this configuration seen *)
Example explore_current_two_readers :
  explore 400 current_progs (mk_config [KEnsure 0 1; KEnsure 0 1] [false; false]) = Exhausted 1512.
Proof. vm_compute. reflexivity. Qed.

(* the search itself finds each of them *)
Example search_finds_m_assign :
  match search m_assign with Violation _ _ _ => True | _ => False end.
Proof. vm_compute. exact I. Qed.
