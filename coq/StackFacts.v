(* StackFacts.v — the denotational core: a merge that satisfies merged_ok
   preserves every read; merge_range (what mergeInto writes) satisfies it. *)
From Coq Require Import List NArith Bool Lia Arith.
From Moss Require Import Bytes BytesFacts Segment SegmentFacts Stack.

(* --- facts that do not involve the merge operator ---------------------- *)

  Lemma newest_none upper k :
    newest upper k = None <-> forall s, In s upper -> find s k = None.
  Proof.
    induction upper as [|s r IH]; simpl.
    - split; auto. intros _ s [].
    - destruct (find s k) eqn:E.
      + split; [discriminate|]. intros H. specialize (H s (or_introl eq_refl)). congruence.
      + rewrite IH. split.
        * intros H s' [<-|Hin]; auto.
        * intros H s' Hin. apply H; auto.
  Qed.
  Lemma all_keys_in upper k :
    In k (all_keys upper) <-> exists s, In s upper /\ In k (keys s).
  Proof.
    unfold all_keys. induction upper as [|s r IH]; simpl.
    - split; [tauto|]. intros [s [[] _]].
    - rewrite kunion_in, IH. split.
      + intros [H|[s' [H1 H2]]]; eauto.
      + intros [s' [[<-|H1] H2]]; eauto.
  Qed.
  Lemma all_keys_asc upper : asc (all_keys upper).
  Proof.
    unfold all_keys. induction upper as [|s r IH]; simpl; [constructor|].
    apply kunion_asc; auto.
  Qed.
  Lemma newest_some_in_all_keys upper k :
    In k (all_keys upper) <-> newest upper k <> None.
  Proof.
    rewrite all_keys_in. split.
    - intros [s [H1 H2]] Hn. rewrite newest_none in Hn. specialize (Hn s H1).
      apply find_none_iff in Hn. tauto.
    - intros Hn. destruct (newest upper k) eqn:E; [|congruence]. clear Hn.
      induction upper as [|s r IH]; simpl in *; [discriminate|].
      destruct (find s k) eqn:F.
      + exists s; split; auto. eapply find_some_key; eauto.
      + destruct (IH E) as [s' [H1 H2]]. eauto.
  Qed.
  Lemma emit_one_key tail upper fg k e : emit_one tail upper fg k = Some e -> fst e = k.
  Proof.
    unfold emit_one. destruct (newest upper k); [|discriminate].
    destruct (tail && Nat.eqb (cursors_at upper k) 1).
    - intros [= <-]; auto.
    - destruct o; intros [= <-]; auto.
  Qed.
  Lemma emit_all_keys_sub tail incl upper fg ks x :
    In x (keys (emit_all tail incl upper fg ks)) -> In x ks.
  Proof.
    induction ks as [|k r IH]; simpl; auto.
    destruct (skip_del incl upper k); auto.
    destruct (emit_one tail upper fg k) eqn:E; auto.
    simpl. intros [H|H]; auto. apply emit_one_key in E. left; congruence.
  Qed.
  Lemma emit_all_asc tail incl upper fg ks :
    asc ks -> asc (keys (emit_all tail incl upper fg ks)).
  Proof.
    induction ks as [|k r IH]; simpl; intros H; [constructor|].
    pose proof (asc_tail _ _ H) as Ht.
    destruct (skip_del incl upper k); auto.
    destruct (emit_one tail upper fg k) eqn:E; auto.
    simpl. apply asc_cons_intro; auto.
    intros x Hx. apply emit_all_keys_sub in Hx. apply emit_one_key in E. rewrite E.
    eapply asc_head_lt; eauto.
  Qed.
  Lemma find_emit_all_notin tail incl upper fg ks k :
    ~ In k ks -> find (emit_all tail incl upper fg ks) k = None.
  Proof.
    intros H. apply find_none_iff. intros Hin. apply emit_all_keys_sub in Hin. tauto.
  Qed.
  Lemma find_emit_all_in tail incl upper fg ks k :
    NoDup ks -> In k ks ->
    find (emit_all tail incl upper fg ks) k =
      if skip_del incl upper k then None
      else option_map snd (emit_one tail upper fg k).
  Proof.
    induction ks as [|a r IH]; simpl; intros Hn Hin; [destruct Hin|].
    inversion Hn; subst. destruct Hin as [->|Hin].
    - destruct (skip_del incl upper k).
      + apply find_emit_all_notin; auto.
      + destruct (emit_one tail upper fg k) eqn:E; simpl.
        * pose proof (emit_one_key _ _ _ _ _ E) as Hk. destruct e as [k' o]; simpl in *; subst.
          now rewrite beqb_refl.
        * apply find_emit_all_notin; auto.
    - assert (a <> k) by (intros ->; tauto).
      destruct (skip_del incl upper a); auto.
      destruct (emit_one tail upper fg a) eqn:E; auto.
      simpl. pose proof (emit_one_key _ _ _ _ _ E) as Hk. destruct e as [k' o]; simpl in *; subst.
      assert (beqb a k = false) by (apply beqb_false; auto). rewrite H0. auto.
  Qed.
  Lemma has_key_geq_false_find s k : has_key_geq s k = false -> find s k = None.
  Proof.
    intros H. destruct (find s k) eqn:E; auto. exfalso.
    apply find_some_key in E. unfold has_key_geq in H.
    assert (existsb (fun e => bleb k (fst e)) s = true); [|congruence].
    unfold keys in E. apply in_map_iff in E. destruct E as [e [He Hin]].
    apply existsb_exists. exists e; split; auto. rewrite He. unfold bleb. now rewrite bcmp_refl.
  Qed.
  Lemma cursors_zero_newest upper k : cursors_at upper k = 0 -> newest upper k = None.
  Proof.
    unfold cursors_at. induction upper as [|s r IH]; simpl; auto.
    destruct (has_key_geq s k) eqn:E; simpl; [discriminate|].
    intros H. rewrite (has_key_geq_false_find _ _ E). auto.
  Qed.
  Lemma merge_range_asc tail incl upper fg : asc (keys (merge_range tail incl upper fg)).
  Proof. apply emit_all_asc, all_keys_asc. Qed.


Section WithMerge.
  Variable fm : bytes -> value -> bytes -> value.
  Notation sget := (sget fm).
  Notation apply_op := (apply_op fm).

  Lemma sget_app a b below k : sget (a ++ b) below k = sget a (sget b below) k.
  Proof.
    induction a as [|s a IH]; simpl; auto. rewrite IH. reflexivity.
  Qed.

  Lemma sget_ext st b1 b2 k : b1 k = b2 k -> sget st b1 k = sget st b2 k.
  Proof. intros H. induction st as [|s st IH]; simpl; auto. now rewrite IH. Qed.


  Lemma sget_newest_none upper lower below k :
    newest upper k = None -> sget (upper ++ lower) below k = sget lower below k.
  Proof.
    induction upper as [|s r IH]; simpl; auto.
    destruct (find s k); [discriminate|]. auto.
  Qed.

  Lemma sget_newest_setdel upper lower below k o :
    newest upper k = Some o -> is_merge o = false ->
    sget (upper ++ lower) below k = apply_op k None o.
  Proof.
    induction upper as [|s r IH]; simpl; [discriminate|].
    destruct (find s k) eqn:E.
    - intros [= ->] Hm. destruct o; simpl in *; auto; discriminate.
    - auto.
  Qed.

  Lemma apply_op_setdel k c1 c2 o : is_merge o = false -> apply_op k c1 o = apply_op k c2 o.
  Proof. destruct o; simpl; auto; discriminate. Qed.

  Definition merged_ok (m : segment) (upper lower : list segment) (below : bytes -> value) : Prop :=
    forall k,
      match find m k with
      | None => newest upper k = None
      | Some o => apply_op k (sget lower below k) o = sget (upper ++ lower) below k
      end.

  Theorem merge_preserves_view m upper lower below :
    merged_ok m upper lower below ->
    forall k, sget (m :: lower) below k = sget (upper ++ lower) below k.
  Proof.
    intros H k. specialize (H k). simpl. destruct (find m k); auto.
    now rewrite sget_newest_none.
  Qed.

  (* --- all_keys -------------------------------------------------------- *)




  (* --- emit_all -------------------------------------------------------- *)






  (* --- the tail (single remaining cursor) ------------------------------ *)



  Lemma sget_single_cursor upper lower below k o :
    cursors_at upper k = 1 -> newest upper k = Some o ->
    sget (upper ++ lower) below k = apply_op k (sget lower below k) o.
  Proof.
    unfold cursors_at. induction upper as [|s r IH]; simpl; [discriminate|].
    destruct (has_key_geq s k) eqn:E; simpl.
    - intros H. injection H as H. apply cursors_zero_newest in H.
      destruct (find s k) eqn:F.
      + intros [= ->]. now rewrite (sget_newest_none _ _ _ _ H).
      + congruence.
    - rewrite (has_key_geq_false_find _ _ E). auto.
  Qed.

  (* --- merge_range satisfies merged_ok (deletions kept) ---------------- *)

  Theorem merge_range_ok tail upper lower below :
    merged_ok (merge_range tail true upper (sget (upper ++ lower) below)) upper lower below.
  Proof.
    intros k. unfold merge_range.
    destruct (in_dec (list_eq_dec N.eq_dec) k (all_keys upper)) as [Hin|Hn].
    - rewrite find_emit_all_in; auto; [|apply asc_NoDup, all_keys_asc].
      unfold skip_del; simpl.
      apply newest_some_in_all_keys in Hin.
      unfold emit_one. destruct (newest upper k) as [o|] eqn:En; [|congruence].
      destruct (tail && Nat.eqb (cursors_at upper k) 1) eqn:Et; simpl.
      + apply andb_true_iff in Et. destruct Et as [_ Et]. apply Nat.eqb_eq in Et.
        symmetry. apply sget_single_cursor; auto.
      + destruct o as [v| |v]; simpl.
        * now rewrite (sget_newest_setdel _ _ _ _ _ En).
        * now rewrite (sget_newest_setdel _ _ _ _ _ En).
        * destruct (sget (upper ++ lower) below k); reflexivity.
    - rewrite find_emit_all_notin; auto.
      destruct (newest upper k) eqn:E; auto.
      exfalso. apply Hn. apply newest_some_in_all_keys. congruence.
  Qed.

  Corollary merge_stack_view lvl ss below k :
    sget (merge_stack fm lvl ss below) below k = sget ss below k.
  Proof.
    unfold merge_stack, split_at.
    set (n := length ss - lvl).
    pose proof (firstn_skipn n ss) as Hs.
    remember (firstn n ss) as upper. remember (skipn n ss) as lower.
    rewrite <- Hs.
    apply merge_preserves_view. apply merge_range_ok.
  Qed.


  Lemma sget_newest_del upper below k :
    newest upper k = Some ODel -> sget upper below k = None.
  Proof.
    induction upper as [|s r IH]; simpl; [discriminate|].
    destruct (find s k) eqn:E; auto. intros [= ->]. reflexivity.
  Qed.


  Theorem compact_full_view upper k :
    sget [merge_range false false upper (sget upper no_below)] no_below k
    = sget upper no_below k.
  Proof.
    simpl. unfold merge_range.
    destruct (in_dec (list_eq_dec N.eq_dec) k (all_keys upper)) as [Hin|Hn].
    - rewrite find_emit_all_in; auto; [|apply asc_NoDup, all_keys_asc].
      apply newest_some_in_all_keys in Hin.
      unfold skip_del, emit_one; simpl.
      destruct (newest upper k) as [o|] eqn:En; [|congruence].
      destruct o as [v| |v]; simpl.
      + rewrite <- (app_nil_r upper) at 1. now rewrite (sget_newest_setdel _ _ _ _ _ En).
      + symmetry. now apply sget_newest_del.
      + destruct (sget upper no_below k); reflexivity.
    - rewrite find_emit_all_notin; auto.
      assert (newest upper k = None).
      { destruct (newest upper k) eqn:E; auto. exfalso. apply Hn.
        apply newest_some_in_all_keys. congruence. }
      rewrite <- (app_nil_r upper). now rewrite sget_newest_none.
  Qed.

  (* shape of a full compaction: no tombstone unless FullMerge returned nil *)
  Theorem compact_full_no_del upper k :
    (forall k c v, fm k c v <> None) ->
    find (merge_range false false upper (sget upper no_below)) k <> Some ODel.
  Proof.
    intros Hfm. unfold merge_range.
    destruct (in_dec (list_eq_dec N.eq_dec) k (all_keys upper)) as [Hin|Hn].
    - rewrite find_emit_all_in; auto; [|apply asc_NoDup, all_keys_asc].
      unfold skip_del, emit_one; simpl.
      destruct (newest upper k) as [o|] eqn:En; [|discriminate].
      destruct o as [v| |v]; simpl; try discriminate.
      assert (sget upper no_below k <> None).
      { clear Hin. revert En. induction upper as [|s r IH]; simpl; [discriminate|].
        destruct (find s k) eqn:F; auto. intros [= ->]. simpl. apply Hfm. }
      destruct (sget upper no_below k); [discriminate|congruence].
    - rewrite find_emit_all_notin; auto. discriminate.
  Qed.
  (* --- full compaction: deletions dropped, nothing beneath ------------- *)

End WithMerge.
