(* OwnersScenarios.v -- the LIVE tie of the ownership model: the operation
   lists of the scripted scenarios that the director family "owners"
   (harness/director/famowners.go) runs against the real library.  For each
   scenario ocaml/ownersrun.ml evaluates run_events on the list below and
   compares it, event for event and modulo a renaming of object ids, with the
   AddRef/DecRef events recorded from the real code.  Every list uses the
   operations of the CURRENT code only. *)
From Coq Require Import List Arith Bool Lia.
From Moss Require Import Owners OwnersFacts.
Import ListNotations.

Definition closing2 : list op := [OpCollClose; OpStoreClose].
Definition cycle (b : mbranch) (m : pmode) (cache : bool) : list op :=
  [OpMergerIngest; OpMergerSwap b; OpMergerHandover; OpPersistBegin; OpPersistRun m;
   OpPersistPublish cache].

(* 0: two appended rounds; fresh and cached collection snapshot, store snapshot, iterator on
   the fully persisted collection (the footer's own iterator is handed out); closes *)
Definition sc_append_rounds_snapshots : list op :=
  round false (PAppend false 1 0) false ++ round false (PAppend false 1 0) false ++
  [OpSnapFresh; OpSnapCached; OpStoreSnap; OpIterStart 0 IKLower;
   OpCloseH 3; OpCloseH 0; OpCloseH 0; OpCloseH 0] ++ closing2.

(* 1: heap iterator with a lower-level iterator; the snapshot is closed BEFORE its iterator,
   a batch invalidates the cached copy, SeekTo re-creates the cursors twice *)
Definition sc_heap_iter_snapshot_closed_first : list op :=
  round false (PAppend false 1 0) false ++
  [OpBatch false; OpSnapFresh; OpIterStart 0 IKHeap; OpCloseH 0; OpBatch false;
   OpIterSeek 0 SKLower; OpIterSeek 0 SKLower; OpCloseH 0] ++
  cycle BrMerged (PAppend false 1 0) false ++ closing2.

(* 2: a child collection, CompactionForce; store snapshot, its child snapshot,
   SnapshotPrevious (none), collection snapshot, its child snapshot, iterator on that *)
Definition sc_force_compaction_child : list op :=
  round true PCompactFull false ++ round false PCompactFull false ++
  [OpStoreSnap; OpChildSnap 0 0; OpPrev 0 false 0 0 0; OpSnapFresh; OpChildSnap 2 0;
   OpIterStart 3 IKLower; OpCloseH 4; OpCloseH 3; OpCloseH 2; OpCloseH 1; OpCloseH 0] ++ closing2.

(* 3: CompactionAllow with CachePersisted, one segment per level: two appended rounds, then a
   PARTIAL compaction keeping the first segment location; heap iterator over the cached
   segment with a lower-level iterator, an iteratorSingle (SkipLowerLevel), SeekTo, the
   snapshot closed before its iterators *)
Definition sc_partial_compaction_cached : list op :=
  round false (PAppend true 1 0) true ++ round false (PAppend true 1 0) true ++
  round false (PCompactPartial 1) true ++
  [OpSnapFresh; OpIterStart 0 IKHeap; OpIterStart 0 IKSingleSkipLL; OpIterSeek 1 SKLower;
   OpIterSeek 2 SKLLDone;   (* a seek far ahead, past every key: the old lower-level iterator is alive, the new one done at once *)
   OpCloseH 0;
   OpIterSeek 1 SKLower; OpCloseH 0; OpCloseH 0] ++ closing2.

(* 4: the child collection dropped and re-created while the persister is held at
   persister:begin of the round that persists the drop *)
Definition sc_drop_recreate_persister_held : list op :=
  round true (PAppend false 1 1) false ++
  [OpDropChildren; OpMergerIngest; OpMergerSwap BrEmpty; OpMergerHandover; OpPersistBegin;
   OpBatch true; OpMergerIngest; OpMergerSwap BrMerged; OpMergerHandover;
   OpSnapFresh;
   OpPersistRun (PAppend false 0 0); OpPersistPublish false] ++
  cycle BrMerged (PAppend false 1 1) false ++
  [OpCloseH 0] ++ closing2.

(* 5: history walk, Collection.Get reaching the lower level, iterators with SkipLowerLevel
   and with a lower-level iterator that is done at once, an idle merger cycle *)
Definition sc_history_get_idle_cycle : list op :=
  round false (PAppend false 1 0) false ++ round false (PAppend false 1 0) false ++
  [OpStoreSnap; OpPrev 0 true 1 0 0; OpPrev 1 false 0 0 0; OpCollGet true; OpSnapFresh;
   OpIterStart 2 IKSkipLL; OpIterStart 2 IKLLDone] ++
  cycle BrEmpty (PAppend false 0 0) false ++
  [OpCloseH 4; OpCloseH 3; OpCloseH 2; OpCloseH 1; OpCloseH 0] ++ closing2.

(* 6: every kind of iterator on a fully persisted collection; the snapshot closed first *)
Definition sc_iter_kinds_fully_persisted : list op :=
  round false (PAppend false 1 0) false ++
  [OpSnapFresh; OpIterStart 0 IKLower; OpIterStart 0 IKSkipLL; OpIterStart 0 IKLLDone; OpCloseH 0;
   OpIterSeek 0 SKLower; OpIterSeek 0 SKSkipLL; OpIterSeek 0 SKLLDone;
   OpCloseH 2; OpCloseH 0; OpCloseH 0] ++ closing2.

(* 7: iterators on a store snapshot and on its child snapshot, previous snapshot with a
   child footer; collection and store closed while handles are still open *)
Definition sc_store_snapshot_iterators : list op :=
  round true (PAppend false 1 1) false ++ round false (PAppend false 1 1) false ++
  [OpStoreSnap; OpIterStart 0 IKHeap; OpChildSnap 0 0; OpIterStart 2 IKHeap; OpPrev 0 true 1 1 1;
   OpCloseH 0; OpIterSeek 0 SKLower; OpCloseH 0] ++ closing2 ++
  [OpCloseH 0; OpCloseH 1; OpCloseH 0].

(* 8: handles taken while the merger and the persister are in the middle of their cycles *)
Definition sc_handles_between_gates : list op :=
  round false (PAppend false 1 0) false ++
  [OpBatch false; OpMergerIngest; OpSnapFresh; OpMergerSwap BrMerged; OpIterStart 0 IKHeap;
   OpMergerHandover; OpPersistBegin; OpPersistRun (PAppend false 1 0); OpStoreSnap; OpSnapFresh;
   OpPersistPublish false;
   OpIterSeek 1 SKLower; OpCloseH 0; OpCloseH 1; OpCloseH 0; OpCloseH 0] ++ closing2.

(* 9: all data in the child collection under CompactionAllow: every round is a full
   compaction into a new file (the incoming top-level size is 0) *)
Definition sc_child_only_full_compaction : list op :=
  round true PCompactFull false ++ round false PCompactFull false ++
  [OpSnapFresh; OpChildSnap 0 0; OpIterStart 1 IKLower; OpCloseH 0; OpCloseH 0; OpCloseH 0] ++
  closing2.

(* 10: known finding F31: the only child collection holding data is dropped *)
Definition sc_drop_only_child_new_file : list op :=
  round true (PAppend false 0 1) false ++
  [OpDropChildren] ++ cycle BrEmpty (PAppend false 0 0) false ++
  round false (PAppend false 1 0) false ++ closing2.

(* 11: the error return of startIterator, then a successful start *)
Definition sc_iterator_error_return : list op :=
  round false (PAppend false 1 0) false ++
  [OpSnapFresh; OpIterStart 0 IKLLError; OpIterStart 0 IKLower; OpCloseH 0; OpCloseH 0] ++ closing2.

(* 12: two batches ingested together, CachePersisted, a full compaction; the collection is
   closed while snapshots and an iterator are open *)
Definition sc_close_collection_before_handles : list op :=
  round false (PAppend true 1 0) true ++
  [OpBatch false; OpBatch false; OpSnapFresh] ++ cycle BrMerged PCompactFull true ++
  [OpIterStart 0 IKHeap; OpSnapFresh; OpCollClose; OpIterSeek 1 SKLower; OpCloseH 0; OpCloseH 1; OpCloseH 0;
   OpStoreClose].

(* the number of data files left in the directory at the end (compared with the real
   directory: the unlink of a file compacted away produces no reference-count event) *)
Definition run_nfiles (ops : list op) : option nat :=
  option_map (fun st => length (files st)) (run ops).

Definition owners_scenarios : list (list op) :=
  [sc_append_rounds_snapshots; sc_heap_iter_snapshot_closed_first; sc_force_compaction_child;
   sc_partial_compaction_cached; sc_drop_recreate_persister_held; sc_history_get_idle_cycle;
   sc_iter_kinds_fully_persisted; sc_store_snapshot_iterators; sc_handles_between_gates;
   sc_child_only_full_compaction; sc_drop_only_child_new_file; sc_iterator_error_return;
   sc_close_collection_before_handles].

(* every scenario is a history of the current code, the model runs on it, and it ends
   with every handle, the collection and the store closed *)
Example owners_scenarios_current_code :
  forallb (forallb current_code) owners_scenarios = true.
Proof. vm_compute. reflexivity. Qed.

Example owners_scenarios_run :
  forallb (fun sc => match run sc with Some st => all_closed_b st | None => false end)
          owners_scenarios = true.
Proof. vm_compute. reflexivity. Qed.

(* the files left behind: one (the current file) everywhere, except two in the history of
   known finding F31 *)
Example owners_scenarios_files :
  map run_nfiles owners_scenarios =
  [Some 1; Some 1; Some 1; Some 1; Some 1; Some 1; Some 1; Some 1; Some 1; Some 1; Some 2; Some 1; Some 1].
Proof. vm_compute. reflexivity. Qed.

Print Assumptions owners_scenarios_current_code.
Print Assumptions owners_scenarios_run.
Print Assumptions owners_scenarios_files.
