(* OwnersRevertProgress.v -- PROGRESS of SnapshotRevert in the extended ownership
   model: from every state that satisfies the ownership invariant with no
   reference left in a local (every state a history reaches), the revert
   operation runs to its end whatever handle and outcome are chosen - it never
   AddRef()s or DecRef()s a released object, never gives back a reference it
   does not hold, never overwrites a root and ends with no reference left in a
   local (x_revert_never_faults, x_revert_never_faults_after_any_history).
   The revert needs ranks only.  The other operations (those of Owners.v,
   XPrev, XOpenColl) need a kind discipline of the heap - footers hold
   mappings, mappings hold files - that the ownership invariant does not
   carry: PROGRESS of the whole alphabet is proved with that strengthened
   invariant in OwnersProgressRules.v / OwnersProgressFacts.v /
   OwnersRevertProgressFacts.v (C15_legal_use_never_faults). *)
From Coq Require Import List Arith Bool Lia.
From Moss Require Import Owners OwnersFacts OwnersRevert OwnersRevertFacts.
Import ListNotations.

(* ------------------------------------------------------------------ *)
(* the heap grows and counts change; kinds and references stay *)

Definition shape (h h' : heap) : Prop :=
  forall o ob, nth_error h o = Some ob ->
    exists ob', nth_error h' o = Some ob' /\ o_kind ob' = o_kind ob /\ o_top ob' = o_top ob /\
                o_refs ob' = o_refs ob /\ o_kids ob' = o_kids ob /\ o_file ob' = o_file ob.

Lemma shape_refl h : shape h h.
Proof. intros o ob H. exists ob. auto 10. Qed.
Lemma shape_trans a b c : shape a b -> shape b c -> shape a c.
Proof.
  intros H1 H2 o ob H. destruct (H1 o ob H) as [ob1 [E1 [K1 [T1 [R1 [D1 F1]]]]]].
  destruct (H2 o ob1 E1) as [ob2 [E2 [K2 [T2 [R2 [D2 F2]]]]]].
  exists ob2. repeat split; congruence.
Qed.
Lemma shape_rank h h' o ob ob' : shape h h' -> nth_error h o = Some ob -> nth_error h' o = Some ob' ->
  rank ob' = rank ob.
Proof.
  intros S H H'. destruct (S o ob H) as [ob1 [E1 [K1 [T1 _]]]]. rewrite H' in E1. inversion E1; subst.
  unfold rank. rewrite K1, T1. reflexivity.
Qed.
Lemma shape_upd_cnt h o ob n : nth_error h o = Some ob -> shape h (upd o (set_cnt ob n) h).
Proof.
  intros Ho a oa Ha. destruct (Nat.eq_dec o a) as [->|N].
  - rewrite nth_upd_same by (eapply nth_some_lt; eauto). rewrite Ho in Ha. inversion Ha; subst.
    eexists. split; [reflexivity|]. simpl. auto 10.
  - rewrite nth_upd_other by auto. exists oa. auto 10.
Qed.
Lemma shape_snoc h ob : shape h (h ++ [ob]).
Proof.
  intros a oa Ha. exists oa. split; [|auto 10]. rewrite nth_error_app1; auto. eapply nth_some_lt; eauto.
Qed.
Lemma shape_allrefs h h' r : shape h h' -> In r (allrefs h) -> In r (allrefs h').
Proof.
  intros S H. apply allrefs_in in H. destruct H as [a [ob [Ha Hin]]].
  destruct (S a ob Ha) as [ob' [E [_ [_ [R [K _]]]]]].
  eapply in_allrefs; eauto. unfold orefs in *. rewrite R, K. exact Hin.
Qed.

(* ------------------------------------------------------------------ *)
(* success of the primitives, with what they leave behind *)

Lemma removes_ok rs : forall l, (forall x, cn x rs <= cn x l) -> exists l', removes rs l = Some l'.
Proof.
  induction rs as [|r t IH]; intros l H; simpl; [eauto|].
  assert (Hin : In r l).
  { apply cn_in. specialize (H r). rewrite cn_cons, Nat.eqb_refl in H. lia. }
  destruct (in_remove1 r l Hin) as [l1 R1]. rewrite R1. apply IH. intros x.
  pose proof (remove1_cn _ _ _ R1 x) as Q. specialize (H x). rewrite cn_cons in H.
  destruct (Nat.eqb r x); lia.
Qed.

Lemma rank_lt_all_complete h rs n :
  (forall r, In r rs -> exists ob, nth_error h r = Some ob /\ rank ob < n) -> rank_lt_all h rs n = true.
Proof.
  intros H. unfold rank_lt_all. apply forallb_forall. intros r Hin.
  destruct (H r Hin) as [ob [E L]]. rewrite E. apply Nat.ltb_lt. exact L.
Qed.

Lemma addref_ok o st : Inv st -> In o (allrefs (hp st)) ->
  exists st', addref o st = Some st' /\ Inv st' /\ shape (hp st) (hp st') /\
              regs st' = regs st /\ hand st' = o :: hand st.
Proof.
  intros I Hin.
  destruct (addref_of_referenced_object_succeeds st o I) as [st' H].
  { apply in_or_app. right. exact Hin. }
  exists st'. split; [exact H|]. split; [eapply pres_addref; eauto|].
  unfold addref in H. destruct (nth_error (hp st) o) as [ob|] eqn:Ho; [|discriminate].
  destruct (o_cnt ob); [discriminate|]. inversion H; subst; simpl.
  split; [apply shape_upd_cnt; exact Ho|]. auto.
Qed.

Lemma each_addref_ok : forall ms st, Inv st -> (forall m, In m ms -> In m (allrefs (hp st))) ->
  exists st', each ms addref st = Some st' /\ Inv st' /\ shape (hp st) (hp st') /\
              regs st' = regs st /\ (forall x, cn x (hand st') = cn x ms + cn x (hand st)).
Proof.
  induction ms as [|m r IH]; intros st I H; simpl.
  - exists st. split; [reflexivity|]. split; auto. split; [apply shape_refl|]. split; auto.
  - destruct (addref_ok m st I (H m (or_introl eq_refl))) as [s1 [E1 [I1 [S1 [R1 H1]]]]].
    destruct (IH s1 I1) as [s2 [E2 [I2 [S2 [R2 H2]]]]].
    { intros m' Hm'. eapply shape_allrefs; eauto. apply H. right. exact Hm'. }
    exists s2. unfold bind. rewrite E1. split; [exact E2|]. split; auto.
    split; [eapply shape_trans; eauto|]. split; [congruence|].
    intros x. rewrite H2, H1, !cn_cons. lia.
Qed.

Lemma alloc_k_ok k top rs ks f cont st : Inv st ->
  (forall x, cn x (rs ++ ks) <= cn x (hand st)) ->
  (forall r, In r (rs ++ ks) -> exists ob, nth_error (hp st) r = Some ob /\
                                           rank ob < rank (mkObj k top 1 rs ks f false)) ->
  exists st', alloc_k k top rs ks f cont st = cont (length (hp st)) st' /\ Inv st' /\
              hp st' = hp st ++ [mkObj k top 1 rs ks f false] /\ regs st' = regs st /\
              (forall x, cn x (hand st') + cn x (rs ++ ks) = cn x [length (hp st)] + cn x (hand st)).
Proof.
  intros I Hc Hr. destruct (removes_ok (rs ++ ks) (hand st) Hc) as [l R].
  pose proof (rank_lt_all_complete _ _ _ Hr) as K.
  assert (A : alloc k top rs ks f st =
              Some (mkState (hp st ++ [mkObj k top 1 rs ks f false]) (files st) (regs st) (handles st)
                            (length (hp st) :: l) (leaked st) (elog st) (ct st))).
  { unfold alloc. rewrite R, K. reflexivity. }
  eexists. unfold alloc_k, rd, fresh, bind. rewrite A. split; [reflexivity|].
  split; [eapply pres_alloc; eauto|]. simpl. split; auto. split; auto.
  intros x. pose proof (removes_cn _ _ _ R x). rewrite !cn_cons, cn_nil. lia.
Qed.

(* ------------------------------------------------------------------ *)
(* revertToSnapshot *)

Lemma revert_kids_ok : forall cs acc cont st, Inv st ->
  (forall c, In c cs -> exists ob, nth_error (hp st) c = Some ob /\ rank ob <= 2) ->
  exists st' ks, revert_kids cs acc cont st = cont (acc ++ ks) st' /\ Inv st' /\
                 shape (hp st) (hp st') /\ regs st' = regs st /\
                 (forall x, cn x (hand st') = cn x ks + cn x (hand st)) /\
                 (forall k, In k ks -> exists ob, nth_error (hp st') k = Some ob /\ rank ob = 2).
Proof.
  induction cs as [|c r IH]; intros acc cont st I H.
  - exists st, []. simpl. rewrite app_nil_r. split; auto. split; auto. split; [apply shape_refl|].
    split; auto. split; auto. intros k [].
  - destruct (H c (or_introl eq_refl)) as [obc [Ec Rc]].
    simpl. unfold rd at 1. unfold rd at 1.
    assert (Ems : refs_of c st = o_refs obc) by (unfold refs_of, refs_at; rewrite Ec; reflexivity).
    rewrite Ems.
    destruct (each_addref_ok (o_refs obc) st I) as [s1 [E1 [I1 [S1 [R1 H1]]]]].
    { intros m Hm. eapply in_allrefs; eauto. unfold orefs. apply in_or_app. left. exact Hm. }
    unfold bind at 1. rewrite E1.
    destruct (alloc_k_ok KFooter false (o_refs obc) [] (tag_of c st)
                (fun n => revert_kids r (acc ++ [n]) cont) s1 I1) as [s2 [E2 [I2 [Hp2 [R2 H2]]]]].
    { intros x. rewrite app_nil_r, H1. lia. }
    { intros m Hm. rewrite app_nil_r in Hm. destruct I as [_ _ C].
      destruct (C c obc m Ec) as [obm [Em Lm]]; [unfold orefs; apply in_or_app; left; exact Hm|].
      destruct (S1 m obm Em) as [obm' [Em' [Km [Tm _]]]]. exists obm'. split; auto.
      assert (rank obm' = rank obm) by (unfold rank; rewrite Km, Tm; reflexivity).
      unfold rank at 2. simpl. lia. }
    rewrite E2. cbv beta.
    assert (S12 : shape (hp s1) (hp s2)) by (rewrite Hp2; apply shape_snoc).
    destruct (IH (acc ++ [length (hp s1)]) cont s2 I2) as [s3 [ks [E3 [I3 [S3 [R3 [H3 K3]]]]]]].
    { intros c' Hc'. destruct (H c' (or_intror Hc')) as [ob' [E' L']].
      destruct (shape_trans _ _ _ S1 S12 c' ob' E') as [ob'' [E'' [K'' [T'' _]]]].
      exists ob''. split; auto. unfold rank in *. rewrite K'', T''. exact L'. }
    exists s3, (length (hp s1) :: ks).
    split; [etransitivity; [exact E3|]; rewrite <- app_assoc; reflexivity|]. split; auto.
    split; [eapply shape_trans; [exact S1|eapply shape_trans; eauto]|].
    split; [congruence|]. split.
    + intros x. rewrite H3. specialize (H2 x). rewrite app_nil_r in H2. rewrite H1 in H2.
      rewrite !cn_cons in *. rewrite cn_nil in H2. lia.
    + intros k [<-|Hk]; [|apply K3; exact Hk].
      assert (E : nth_error (hp s2) (length (hp s1)) = Some (mkObj KFooter false 1 (o_refs obc) [] (tag_of c st) false)).
      { rewrite Hp2. rewrite nth_error_app2 by lia. rewrite Nat.sub_diag. reflexivity. }
      destruct (S3 _ _ E) as [ob3 [E3' [K3' [T3' _]]]]. exists ob3. split; auto.
      unfold rank. rewrite K3', T3'. reflexivity.
Qed.

Lemma revert_footer_ok t cont st obt : Inv st ->
  nth_error (hp st) t = Some obt -> rank obt = 3 ->
  exists st' n, revert_footer t cont st = cont n st' /\ Inv st' /\ regs st' = regs st /\
                (forall x, cn x (hand st') = cn x [n] + cn x (hand st)).
Proof.
  intros I Et Rt. unfold revert_footer. unfold rd at 1.
  assert (Ems : refs_of t st = o_refs obt) by (unfold refs_of, refs_at; rewrite Et; reflexivity).
  rewrite Ems.
  destruct (each_addref_ok (o_refs obt) st I) as [s1 [E1 [I1 [S1 [R1 H1]]]]].
  { intros m Hm. eapply in_allrefs; eauto. unfold orefs. apply in_or_app. left. exact Hm. }
  unfold bind at 1. rewrite E1. unfold rd at 1.
  destruct (S1 t obt Et) as [obt1 [Et1 [Kt1 [Tt1 [Rf1 [Kd1 _]]]]]].
  assert (Ecs : kids_of t s1 = o_kids obt) by (unfold kids_of, kids_at; rewrite Et1; exact Kd1).
  rewrite Ecs.
  destruct (revert_kids_ok (o_kids obt) []
              (fun ks => alloc_k KFooter true (o_refs obt) ks 0 cont) s1 I1)
    as [s2 [ks [E2 [I2 [S2 [R2 [H2 K2]]]]]]].
  { intros c Hc. destruct I as [_ _ C].
    destruct (C t obt c Et) as [obc [Ec Lc]]; [unfold orefs; apply in_or_app; right; exact Hc|].
    destruct (S1 c obc Ec) as [obc' [Ec' [Kc [Tc _]]]]. exists obc'. split; auto.
    assert (rank obc' = rank obc) by (unfold rank; rewrite Kc, Tc; reflexivity). lia. }
  rewrite E2. cbv beta. simpl app.
  destruct (alloc_k_ok KFooter true (o_refs obt) ks 0 cont s2 I2) as [s3 [E3 [I3 [Hp3 [R3 H3]]]]].
  { intros x. rewrite cn_app, H2, H1. lia. }
  { intros r Hr. apply in_app_or in Hr. destruct Hr as [Hr|Hr].
    - destruct I as [_ _ C].
      destruct (C t obt r Et) as [obm [Em Lm]]; [unfold orefs; apply in_or_app; left; exact Hr|].
      destruct (shape_trans _ _ _ S1 S2 r obm Em) as [obm' [Em' [Km [Tm _]]]]. exists obm'. split; auto.
      assert (rank obm' = rank obm) by (unfold rank; rewrite Km, Tm; reflexivity).
      unfold rank at 2. simpl. lia.
    - destruct (K2 r Hr) as [obk [Ek Lk]]. exists obk. split; auto. unfold rank at 2. simpl. lia. }
  exists s3, (length (hp s2)). split; [exact E3|]. split; auto. split; [congruence|].
  intros x. specialize (H3 x). rewrite cn_app, H2, H1 in H3. unfold oid in *. lia.
Qed.

(* ------------------------------------------------------------------ *)
(* the operation *)

Lemma cn_zero_nil (l : list oid) : (forall x, cn x l = 0) -> l = [].
Proof.
  destruct l as [|a r]; auto. intros H. specialize (H a). rewrite cn_cons, Nat.eqb_refl in H. lia.
Qed.

Lemma is_top_rank t st : is_top t st = true ->
  exists ob, nth_error (hp st) t = Some ob /\ rank ob = 3.
Proof.
  unfold is_top. destruct (nth_error (hp st) t) as [ob|]; [|discriminate].
  destruct (o_kind ob) eqn:K; try discriminate. intros T. exists ob. split; auto.
  unfold rank. rewrite K, T. reflexivity.
Qed.

Lemma decref_ok_last o st : Inv st -> (forall x, cn x (hand st) = cn x [o]) ->
  exists st', decref o st = Some st' /\ hand st' = [].
Proof.
  intros I H.
  assert (Hin : In o (hand st)) by (apply cn_in; rewrite H, cn_cons, Nat.eqb_refl; lia).
  destruct (decref_of_held_reference_succeeds st o I Hin) as [s D]. exists s. split; [exact D|].
  apply cn_zero_nil. intros x. unfold decref in D.
  destruct (remove1 o (hand st)) as [l|] eqn:Rm; [|discriminate].
  destruct (release _ _ _ _ _) as [[[h2 f2] g2]|]; [|discriminate]. inversion D; subst; simpl.
  pose proof (remove1_cn _ _ _ Rm x) as Q. rewrite H in Q.
  rewrite cn_cons, cn_nil in Q. destruct (Nat.eqb o x); lia.
Qed.

(* footerPrev := s.footer; s.footer = footer; footerPrev.DecRef() *)
Lemma swap_ok n s1 : Inv s1 -> (forall x, cn x (hand s1) = cn x [n]) ->
  exists s', rd (reg SFooter) (fun prev => take SFooter ;; put SFooter n ;; odecref prev) s1 = Some s' /\
             hand s' = [].
Proof.
  intros I1 H1. unfold rd, reg.
  set (prev := regs s1 SFooter).
  set (s2 := mkState (hp s1) (files s1) (rset (regs s1) SFooter None) (handles s1)
                     (olist prev ++ hand s1) (leaked s1) (elog s1) (ct s1)).
  assert (T : take SFooter s1 = Some s2) by reflexivity.
  assert (I2 : Inv s2) by (apply (pres_take SFooter s1 s2 I1); exact T).
  assert (Hn : In n (hand s2)).
  { simpl. apply in_or_app. right. apply cn_in. rewrite H1, cn_cons, Nat.eqb_refl. lia. }
  destruct (in_remove1 n _ Hn) as [l2 Rm2].
  set (s3 := mkState (hp s2) (files s2) (rset (regs s2) SFooter (Some n)) (handles s2) l2
                     (leaked s2) (elog s2) (ct s2)).
  assert (P : put SFooter n s2 = Some s3).
  { unfold put. simpl regs at 1. unfold rset at 1. simpl slot_eqb. cbv iota. rewrite Rm2. reflexivity. }
  assert (I3 : Inv s3) by (apply (pres_put SFooter n s2 s3 I2); exact P).
  assert (H3 : forall x, cn x (hand s3) = cn x (olist prev)).
  { intros x. pose proof (remove1_cn _ _ _ Rm2 x) as Q. simpl in Q. rewrite cn_app, H1 in Q.
    simpl hand. rewrite cn_cons, !cn_nil in Q. destruct (Nat.eqb n x); lia. }
  unfold bind. rewrite T, P. unfold odecref. destruct prev as [p|]; simpl whenS.
  - apply decref_ok_last; auto.
  - exists s3. split; [reflexivity|]. apply cn_zero_nil. intros x. rewrite H3. reflexivity.
Qed.

Lemma op_revert_ok st h m : Inv st -> hand st = [] ->
  exists s', op_revert h m st = Some s' /\ hand s' = [].
Proof.
  intros I Hh. unfold op_revert, guard.
  destruct (sopen (ct st)); [|eauto].
  unfold rd at 1. destruct (nth_error (handles st) h) as [[s|t|a b c|a b c]|]; try (unfold ret; eauto).
  unfold rd at 1. destruct (revert_legal t st) eqn:L; [|unfold ret; eauto].
  unfold revert_legal in L. apply andb_prop in L. destruct L as [L _].
  apply andb_prop in L. destruct L as [L _]. destruct (is_top_rank t st L) as [obt [Et Rt]].
  destruct m; [| unfold ret; eauto |].
  - (* the revert is written and installed *)
    destruct (revert_footer_ok t
                (fun n => rd (reg SFooter) (fun prev => take SFooter ;; put SFooter n ;; odecref prev))
                st obt I Et Rt) as [s1 [n [E1 [I1 [R1 H1]]]]].
    rewrite E1. apply swap_ok; auto. intros x. rewrite H1, Hh, cn_nil. unfold oid in *. lia.
  - (* persistFooter fails: the new footer is given back *)
    destruct (revert_footer_ok t (fun n => decref n) st obt I Et Rt) as [s1 [n [E1 [I1 [R1 H1]]]]].
    rewrite E1. apply decref_ok_last; auto. intros x. rewrite H1, Hh, cn_nil. unfold oid in *. lia.
Qed.

Theorem x_revert_never_faults : forall st h m,
  Inv st -> hand st = [] -> exists st', xstep (XRevert h m) st = Some st'.
Proof.
  intros st h m I Hh. destruct (op_revert_ok st h m I Hh) as [s [E Hs]].
  exists s. unfold xstep, bind. simpl xbody. rewrite E. unfold finish. rewrite Hs. reflexivity.
Qed.

(* after every history, with every handle and outcome *)
Lemma xrun_from_app a : forall b st, xrun_from st (a ++ b) =
  match xrun_from st a with Some s => xrun_from s b | None => None end.
Proof.
  induction a as [|x r IH]; intros b st; simpl; auto. destruct (xstep x st); auto.
Qed.

Theorem x_revert_never_faults_after_any_history : forall ops st h m,
  xrun ops = Some st -> exists st', xrun (ops ++ [XRevert h m]) = Some st'.
Proof.
  intros ops st h m H. unfold xrun in *. rewrite xrun_from_app, H. simpl.
  destruct (x_revert_never_faults st h m (xrun_inv ops st H) (x_locals_released ops st H)) as [st' E].
  rewrite E. eauto.
Qed.

Print Assumptions x_revert_never_faults.
Print Assumptions x_revert_never_faults_after_any_history.
