(* Faults.v — one persistence round as a sequence of file operations, each of
   which may fail (an arbitrary failure oracle), and what the store exposes
   afterwards.  Executable definitions only. *)
From Coq Require Export List NArith Bool.
Export ListNotations.

Inductive fop :=
| OCreateFile        (* full compaction: create the new file and write its header *)
| OWriteSegments     (* segment data: plain WriteAt calls or the buffered section writers *)
| OSyncData
| OWriteFooter
| OSyncFooter
| OLoadSegments      (* mmap + load of the new footer's segments *)
| OSwapFooter        (* s.footer = new footer; cannot fail *)
| ORemoveOld.        (* schedule removal of the superseded file *)

Inductive round_kind := RAppend | RPartial | RFull.

Definition round_ops (k : round_kind) : list fop :=
  match k with
  | RFull => [OCreateFile; OWriteSegments; OSyncData; OWriteFooter; OSyncFooter; OLoadSegments; OSwapFooter; ORemoveOld]
  | _ => [OWriteSegments; OSyncData; OWriteFooter; OSyncFooter; OLoadSegments; OSwapFooter]
  end.

Record outcome := {
  served_new : bool;        (* the store now serves the round's footer *)
  old_exists : bool;        (* the file that held the previous footer still exists *)
  new_exists : bool;        (* (full compaction) the new file exists *)
  new_complete : bool;      (* the round's footer is completely written and synced *)
  error : bool              (* an error was returned (Persist error / OnError) *)
}.

Definition start : outcome :=
  {| served_new := false; old_exists := true; new_exists := false; new_complete := false; error := false |}.

(* fail i: does the i-th operation of the round fail?  The first failure ends
   the round with an error; a half-written new file is discarded. *)
Fixpoint run_ops (fail : nat -> bool) (i : nat) (ops : list fop) (full : bool) (o : outcome) : outcome :=
  match ops with
  | [] => o
  | op :: r =>
      let can_fail := match op with OSwapFooter => false | ORemoveOld => false | _ => true end in
      if fail i && can_fail then
        {| served_new := served_new o; old_exists := old_exists o;
           new_exists := false; new_complete := false; error := true |}
      else
        run_ops fail (S i) r full
          match op with
          | OCreateFile => {| served_new := served_new o; old_exists := old_exists o; new_exists := true;
                              new_complete := false; error := error o |}
          | OSyncFooter => {| served_new := served_new o; old_exists := old_exists o; new_exists := new_exists o;
                              new_complete := true; error := error o |}
          | OSwapFooter => {| served_new := true; old_exists := old_exists o; new_exists := new_exists o;
                              new_complete := new_complete o; error := error o |}
          | ORemoveOld => {| served_new := served_new o; old_exists := negb full; new_exists := new_exists o;
                             new_complete := new_complete o; error := error o |}
          | _ => o
          end
  end.

Definition run_round (fail : nat -> bool) (k : round_kind) : outcome :=
  run_ops fail 0 (round_ops k) (match k with RFull => true | _ => false end) start.
