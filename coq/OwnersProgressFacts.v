(* OwnersProgressFacts.v -- PROGRESS of the ownership model: from every state a
   sequence of operations of the current code reaches, every operation of the
   current code runs to its end (no AddRef / DecRef of a released object, no
   reference given back that is not held, no root overwritten, no local left
   over), so the theorems about run hold for EVERY legal sequence, without the
   premise that run succeeds.  Invariant and rules: OwnersProgressRules.v,
   OwnersProgressLoops.v. *)
From Coq Require Import List Arith Bool Lia.
From Moss Require Import Owners OwnersFacts OwnersProgress OwnersProgressRules OwnersProgressLoops.
Import ListNotations.

(* ------------------------------------------------------------------ *)
(* the operations *)

Ltac start :=
  let HG := fresh "HG" in let Hh := fresh "Hh" in let HC := fresh "HC" in
  let C1 := fresh "C1" in let C2 := fresh "C2" in
  intros [HG [Hh HC]];
  match goal with |- runs _ ?s _ => destruct s as [h fs rg hs l lk lg c] end;
  let HI := fresh "HI" in assert (HI := HG : Init _);
  norm; match goal with H : ?x = [] |- _ => subst x end; pose proof HC as [C1 C2]; norm.

Lemma ok_snap_cached s : Good s -> runs (op_snap_cached ;; finish) s Good.
Proof. start. unfold op_snap_cached. rgo; fin. Qed.

Lemma ok_store_snap s : Good s -> runs (op_store_snap ;; finish) s Good.
Proof. start. unfold op_store_snap. rgo; fin. Qed.

Lemma ok_close_h i s : Good s -> runs (op_close_h i ;; finish) s Good.
Proof. start. unfold op_close_h. rgo; fin. Qed.

Lemma ok_snap_fresh s : Good s -> runs (op_snap_fresh ;; finish) s Good.
Proof. start. unfold op_snap_fresh. gof. Qed.

Lemma ok_coll_get d s : Good s -> runs (op_coll_get d ;; finish) s Good.
Proof. start. unfold op_coll_get. gof. Qed.

Lemma ok_child_snap a b s : Good s -> runs (op_child_snap a b ;; finish) s Good.
Proof. start. unfold op_child_snap. gof. Qed.

Lemma ok_iter_start a ik s : Good s -> runs (op_iter_start a ik ;; finish) s Good.
Proof. start. unfold op_iter_start. gof. Qed.

Lemma ok_iter_seek a sk s : Good s -> runs (op_iter_seek a sk ;; finish) s Good.
Proof. start. unfold op_iter_seek. gof. Qed.

Lemma ok_batch nc s : Good s -> runs (op_batch nc ;; finish) s Good.
Proof. start. unfold op_batch. gof. Qed.

Lemma ok_drop_children s : Good s -> runs (op_drop_children ;; finish) s Good.
Proof. start. unfold op_drop_children. gof. Qed.

Lemma ok_persist_begin s : Good s -> runs (op_persist_begin ;; finish) s Good.
Proof. start. unfold op_persist_begin. gof. Qed.

Lemma ok_persist_publish ca s : Good s -> runs (op_persist_publish ca ;; finish) s Good.
Proof. start. unfold op_persist_publish. gof. Qed.

Lemma ok_coll_close s : Good s -> runs (op_coll_close ;; finish) s Good.
Proof. start. unfold op_coll_close, coll_close_body. gof. Qed.

Lemma ok_store_close s : Good s -> runs (op_store_close ;; finish) s Good.
Proof. start. unfold op_store_close, store_close_body. gof. Qed.

Lemma ok_prev a fd n1 n2 n3 s : Good s -> runs (op_prev a fd n1 n2 n3 ;; finish) s Good.
Proof. start. unfold op_prev. gof. Qed.

Lemma ok_merger_ingest s : Good s -> runs (op_merger_ingest ;; finish) s Good.
Proof. start. unfold op_merger_ingest. gof. Qed.

Lemma ok_merger_swap b s : Good s -> runs (op_merger_swap b ;; finish) s Good.
Proof. start. unfold op_merger_swap. gof. Qed.

Lemma ok_persist_run m s : Good s -> runs (op_persist_run m ;; finish) s Good.
Proof. start. unfold op_persist_run, compact_full. gof. Qed.

Ltac do_refresh :=
  match goal with
  | |- runs (refresh_kids (kids_of ?b ?s) 0 (first_ref ?w ?s)) ?s _ =>
      let Ef := fresh "Ef" in
      destruct (first_ref w s) eqn:Ef; [derive Ef|];
      withG ltac:(fun HG =>
        match goal with
        | Hb : hask _ b KStack |- _ =>
            eapply (runs_refresh_kids (kids_of b s) 0 _ b (refs_of b s) (kids_of b s) s _ HG);
            [ norm; reflexivity
            | apply (holds_of s b KStack HG Hb)
            | apply incl_refl
            | norm; assumption
            | norm; first [assumption | exact I]
            | let Kx := fresh "Kx" in let HG' := fresh "HG" in let Hb' := fresh "Hb" in
              intros ? ? ? ? HG' Kx Hb'; norm; tr_kext Kx; clear HG ]
        end)
  end.

Lemma ok_merger_handover s : Good s -> runs (op_merger_handover ;; finish) s Good.
Proof.
  start. unfold op_merger_handover. gof.
  - do_setrefs. go; do_refresh; gof.
  - do_setrefs. gof.
Qed.

(* ------------------------------------------------------------------ *)
(* PROGRESS *)

Lemma Good_init : Good init.
Proof.
  split; [|split].
  - split; [exact Inv_init|split].
    + intros a ob H. destruct a as [|[|a]]; simpl in H.
      * inversion H; subst. apply ty_obj_empty; reflexivity.
      * inversion H; subst. split; [|split]; simpl.
        -- intros r [<-|[]]. split; [discriminate|]. exists true. eexists. split; [reflexivity|auto].
        -- intros c0 [].
        -- discriminate.
      * destruct a; discriminate.
    + split.
      * intros sl o E. destruct sl; simpl in E; try discriminate; inversion E; subst;
          eexists; eexists; (split; [reflexivity|split; reflexivity]).
      * intros hd [].
  - reflexivity.
  - split; intros _; simpl; auto.
Qed.

(* every operation of the current code, from every good state *)
Theorem step_progress o st : Good st -> current_code o = true ->
  exists st', step o st = Some st' /\ Good st'.
Proof.
  intros HG C. unfold step. destruct o; simpl in C; try discriminate C; simpl body.
  - apply ok_snap_cached; auto.
  - apply ok_snap_fresh; auto.
  - apply ok_coll_get; auto.
  - apply ok_child_snap; auto.
  - apply ok_store_snap; auto.
  - apply ok_prev; auto.
  - apply ok_iter_start; auto.
  - apply ok_iter_seek; auto.
  - apply ok_close_h; auto.
  - apply ok_batch; auto.
  - apply ok_drop_children; auto.
  - apply ok_merger_ingest; auto.
  - apply ok_merger_swap; auto.
  - apply ok_merger_handover; auto.
  - apply ok_persist_begin; auto.
  - apply ok_persist_run; auto.
  - apply ok_persist_publish; auto.
  - apply ok_coll_close; auto.
  - apply ok_store_close; auto.
Qed.

(* the states legal use reaches *)
Inductive reachable : state -> Prop :=
  | reach_init : reachable init
  | reach_step : forall st o st', reachable st -> legal st o = true -> step o st = Some st' ->
                                  reachable st'.

Lemma reachable_good st : reachable st -> Good st.
Proof.
  induction 1 as [|st o st' R IH L E]; [exact Good_init|].
  destruct (step_progress o st IH L) as [s [E' Hs]]. congruence.
Qed.

Theorem legal_step_never_faults : forall st o,
  reachable st -> legal st o = true -> exists st', step o st = Some st'.
Proof.
  intros st o R L. destruct (step_progress o st (reachable_good st R) L) as [s [E _]]. eauto.
Qed.

Lemma legal_seq_from_runs ops : forall st, Good st -> reachable st -> legal_seq_from st ops = true ->
  exists st', run_from st ops = Some st' /\ Good st' /\ reachable st'.
Proof.
  induction ops as [|o r IH]; intros st HG R L; simpl in *.
  - eauto.
  - apply andb_prop in L. destruct L as [L1 L2].
    destruct (step_progress o st HG L1) as [s [E Hs]]. rewrite E in *.
    apply IH; auto. eapply reach_step; eauto.
Qed.

Theorem legal_use_never_faults : forall ops, legal_seq ops = true -> exists st, run ops = Some st.
Proof.
  intros ops L. destruct (legal_seq_from_runs ops init Good_init reach_init L) as [st [E _]]. eauto.
Qed.


Lemma current_legal_seq ops : forall st, Good st -> forallb current_code ops = true ->
  legal_seq_from st ops = true.
Proof.
  induction ops as [|o r IH]; intros st HG F; simpl in *; auto.
  apply andb_prop in F. destruct F as [F1 F2]. unfold legal. rewrite F1. simpl.
  destruct (step_progress o st HG F1) as [s [E Hs]]. rewrite E. auto.
Qed.
Lemma legal_seq_current ops : forall st, Good st -> legal_seq_from st ops = true ->
  forallb current_code ops = true.
Proof.
  induction ops as [|o r IH]; intros st HG L; simpl in *; auto.
  apply andb_prop in L. destruct L as [L1 L2]. unfold legal in L1. rewrite L1. simpl.
  destruct (step_progress o st HG L1) as [s [E Hs]]. rewrite E in L2. eauto.
Qed.

(* legal is what the caller controls: a sequence is legal iff each of its
   operations is one of the current code *)
Theorem legal_seq_iff ops : legal_seq ops = true <-> forallb current_code ops = true.
Proof.
  split; [apply legal_seq_current|apply current_legal_seq]; exact Good_init.
Qed.

(* the C15 statements for EVERY legal sequence: no premise that run succeeds *)
Theorem ownership_invariant_unconditional : forall ops, legal_seq ops = true ->
  exists st, run ops = Some st /\
    forall o, cnt_of (hp st) o = cn o (roots st) + cn o (allrefs (hp st)).
Proof.
  intros ops L. destruct (legal_use_never_faults ops L) as [st E]. exists st. split; auto.
  eapply ownership_invariant; eauto.
Qed.

Theorem no_dangling_reference_unconditional : forall ops, legal_seq ops = true ->
  exists st, run ops = Some st /\
    (forall o, In o (roots st) -> cnt_of (hp st) o > 0) /\
    (forall a ob r, nth_error (hp st) a = Some ob -> In r (orefs ob) ->
                    o_cnt ob > 0 /\ cnt_of (hp st) r > 0).
Proof.
  intros ops L. destruct (legal_use_never_faults ops L) as [st E]. exists st. split; auto.
  eapply no_dangling_reference; eauto.
Qed.

Theorem handle_data_alive_unconditional : forall ops, legal_seq ops = true ->
  exists st, run ops = Some st /\
    forall hd r o, In hd (handles st) -> In r (hrefs hd) -> reach (hp st) r o ->
      cnt_of (hp st) o > 0.
Proof.
  intros ops L. destruct (legal_use_never_faults ops L) as [st E]. exists st. split; auto.
  eapply handle_data_alive; eauto.
Qed.

Theorem all_closed_all_released_unconditional : forall ops, legal_seq ops = true ->
  exists st, run ops = Some st /\
    (all_closed st ->
     (forall o, cnt_of (hp st) o = 0) /\ open_fds st = [] /\ mappings st = 0).
Proof.
  intros ops L. destruct (legal_use_never_faults ops L) as [st E]. exists st. split; auto.
  intros AC. eapply all_closed_all_released_current_code; eauto. apply legal_seq_iff. exact L.
Qed.

(* the hypotheses are satisfiable on a history that does something: a batch
   with a child collection, a merger and a persister round with a full
   compaction, snapshots and an iterator, everything closed *)
Definition w_progress : list op :=
  [OpBatch true; OpSnapFresh; OpMergerIngest; OpMergerSwap BrMerged; OpMergerHandover;
   OpPersistBegin; OpPersistRun PCompactFull; OpPersistPublish true; OpStoreSnap;
   OpIterStart 0 IKHeap; OpIterSeek 2 SKLower; OpChildSnap 0 0; OpPrev 1 true 1 1 1;
   OpCloseH 0; OpCloseH 0; OpCloseH 0; OpCloseH 0; OpCloseH 0; OpCollClose; OpStoreClose].
Example legal_seq_witness :
  legal_seq w_progress = true /\
  match run w_progress with Some st => all_closed_b st = true /\ length (hp st) > 10 | None => False end.
Proof. vm_compute. split; [reflexivity|split; [reflexivity|lia]]. Qed.

(* the strengthened invariant after every legal history: kinds of the heap,
   of what the roots and the handles hold, the temporaries of merger and persister *)
Theorem legal_use_keeps_kinds : forall ops, legal_seq ops = true ->
  exists st, run ops = Some st /\ Ty (hp st) /\ RootsTy st /\ Ctl st /\ hand st = [].
Proof.
  intros ops L. destruct (legal_seq_from_runs ops init Good_init reach_init L) as [st [E [[[_ [T R]] [H C]] _]]].
  exists st. auto.
Qed.

Print Assumptions step_progress.
Print Assumptions legal_step_never_faults.
Print Assumptions legal_use_never_faults.
Print Assumptions legal_seq_iff.
Print Assumptions ownership_invariant_unconditional.
Print Assumptions no_dangling_reference_unconditional.
Print Assumptions handle_data_alive_unconditional.
Print Assumptions all_closed_all_released_unconditional.
Print Assumptions legal_use_keeps_kinds.
