(* Index.v — the segment key index (segment_index.go) and the two binary
   searches that use it (segment.go: findKeyPos, findStartKeyInclusivePos).
   Executable definitions ONLY; every lemma is in IndexFacts.v.

   Conventions
     * a segment's keys are `ks : list bytes`; the logical entry position of a
       key is its index in the list.  Theorems assume `asc ks`.
     * byte counts and the two tunables (quota = SegmentKeysIndexMaxBytes,
       min_key_bytes = SegmentKeysIndexMinKeyBytes) are N; positions, hop and
       fuel are nat (all bounded by length ks + 1).
     * every Go `for` loop is a Fixpoint on fuel that tests its loop condition
       BEFORE consuming fuel and returns None when the fuel runs out;
       IndexFacts.v proves None is never returned with the fuel used here.

   Not modelled (cannot be reached from well-formed segments):
     * uint32 truncation of offsets (index data > 4GiB);
     * the ErrSegmentCorrupted guards of findKeyPos (they compare offsets with
       len(buf) / len(kvs); on a well-formed segment every key lies inside buf
       and j <= Len(), which C14_window proves for the window);
     * a negative quota: Go's `quota / (keyAvgSize+4)` is then negative (or 0)
       and make() would panic; the only caller builds the index when
       quota > 0, so quota is an N and quota = 0 gives "no index";
     * `key == nil` ending the build loop: currentKey returns a nil slice only
       for a position outside the cursor or when a.buf itself is nil (a
       zero-length key sliced out of a non-nil buf is non-nil).  The theorems
       are proved for EVERY prefix-truncated index (idx_wf), so this could
       only change numKeys, never a lookup result. *)
From Coq Require Export List NArith Bool Arith.
From Moss Require Export Bytes.

(* ---------------------------------------------------------------------- *)
(* specification functions                                                  *)

(* number of keys strictly smaller than the probe; on an ascending list this
   is the first position whose key is >= probe (first_geq, IndexFacts). *)
Definition lower_bound (ks : list bytes) (key : bytes) : nat :=
  length (filter (fun k => bltb k key) ks).

Fixpoint first_geq (ks : list bytes) (key : bytes) : nat :=
  match ks with
  | [] => 0
  | k :: r => if bltb k key then S (first_geq r key) else 0
  end.

(* Some p iff p is the (first) position holding key *)
Fixpoint position (ks : list bytes) (key : bytes) : option nat :=
  match ks with
  | [] => None
  | k :: r => if beqb k key then Some 0 else option_map S (position r key)
  end.

(* ---------------------------------------------------------------------- *)
(* the index                                                                *)

(* what lookup reads: hop, srcKeyCount and the indexed keys in order
   (Go: data/offsets/numKeys/numKeyBytes; numKeys = length ix_keys). *)
Record index := mkIndex {
  ix_hop  : nat;
  ix_src  : nat;
  ix_keys : list bytes
}.

(* the index while it is being filled: also the two capacities *)
Record builder := mkBuilder {
  bd_slots  : N;        (* numIndexableKeys = len(offsets) *)
  bd_cap    : N;        (* len(data) = numIndexableKeys * keyAvgSize *)
  bd_nbytes : N;        (* numKeyBytes *)
  bd_idx    : index
}.

Definition blen (k : bytes) : N := N.of_nat (length k).

Definition tot_key_bytes (ks : list bytes) : N :=
  fold_right (fun k acc => (blen k + acc)%N) 0%N ks.

(* newSegmentKeysIndex(quota, srcKeyCount, keyAvgSize) *)
Definition new_index (quota : N) (src : nat) (avg : N) : option builder :=
  let slots := (quota / (avg + 4))%N in
  if (slots =? 0)%N then None
  else
    let hop := N.to_nat (N.of_nat src / slots + 1)%N in
    Some (mkBuilder slots (slots * avg)%N 0%N (mkIndex hop src [])).

(* segmentKeysIndex.add(keyIdx, key): (return value, index afterwards).
   cap - nbytes is a truncated N subtraction; nbytes <= cap always holds. *)
Definition add (b : builder) (keyIdx : nat) (key : bytes) : bool * builder :=
  let ix := bd_idx b in
  if (bd_slots b <=? N.of_nat (length (ix_keys ix)))%N then (false, b)
  else if (bd_cap b - bd_nbytes b <? blen key)%N then (false, b)
  else if negb (keyIdx mod ix_hop ix =? 0) then (true, b)
  else (true,
        mkBuilder (bd_slots b) (bd_cap b) (bd_nbytes b + blen key)%N
                  (mkIndex (ix_hop ix) (ix_src ix) (ix_keys ix ++ [key]))).

(* the `for` loop of buildIndex; curr is scursor.curr (start = 0,
   end = Len()).  currentKey yields nil outside [0, end) -> break. *)
Fixpoint build_loop (ks : list bytes) (fuel : nat) (b : builder) (curr : nat)
  : option builder :=
  match nth_error ks curr with
  | None => Some b                                  (* key == nil: break *)
  | Some key =>
      match fuel with
      | 0 => None
      | S f =>
          let (ok, b') := add b curr key in
          if negb ok then Some b'                   (* out of space: break *)
          else
            let curr' := curr + ix_hop (bd_idx b') in   (* nextDelta(hop) *)
            if length ks <=? curr' then Some b'     (* ErrIteratorDone: break *)
            else build_loop ks f b' curr'
      end
  end.

(* segment.buildIndex(quota, minKeyBytes): the value of a.index afterwards *)
Definition build_index (quota min_key_bytes : N) (ks : list bytes) : option index :=
  let tot := tot_key_bytes ks in
  if (tot <? min_key_bytes)%N then None
  else
    let cnt := N.of_nat (length ks) in
    if (cnt =? 0)%N then None
    else
      let avg := (tot / cnt)%N in
      match new_index quota (length ks) avg with
      | None => None
      | Some b =>
          match build_loop ks (length ks) b 0 with
          | Some b' => Some (bd_idx b')
          | None => Some (bd_idx b)                 (* unreachable: build_loop_fuel *)
          end
      end.

(* ---------------------------------------------------------------------- *)
(* segmentKeysIndex.lookup                                                   *)

(* the indexed key number h (data[offsets[h]:offsets[h+1]]); h < numKeys
   whenever the Go code reads it *)
Definition ikey (keys : list bytes) (h : nat) : bytes := nth h keys [].

Fixpoint lookup_loop (keys : list bytes) (hop : nat) (key : bytes)
         (fuel i j : nat) : option (nat * nat) :=
  if j <=? i then Some (i * hop, j * hop)           (* loop condition i < j fails *)
  else
    match fuel with
    | 0 => None
    | S f =>
        let h := i + (j - i) / 2 in
        match bcmp (ikey keys h) key with
        | Eq => Some (h * hop, h * hop + 1)         (* direct hit *)
        | Lt => if i =? h then Some (i * hop, j * hop)   (* break *)
                else lookup_loop keys hop key f h j
        | Gt => lookup_loop keys hop key f i h
        end
    end.

Definition lookup (idx : index) (key : bytes) : nat * nat :=
  let keys := ix_keys idx in
  let hop := ix_hop idx in
  let n := length keys in
  if n <? 2 then (0, ix_src idx)
  else if bltb key (ikey keys 0) then (0, 0)
  else
    let last := n - 1 in
    if bltb (ikey keys last) key then (last * hop, ix_src idx)
    else
      match lookup_loop keys hop key n 0 n with
      | Some w => w
      | None => (0, ix_src idx)                     (* unreachable: lookup_loop_fuel *)
      end.

(* segment.searchIndex; n = a.Len() *)
Definition search_index (oidx : option index) (n : nat) (key : bytes) : nat * nat :=
  match oidx with
  | Some idx => lookup idx key
  | None => (0, n)
  end.

(* ---------------------------------------------------------------------- *)
(* the two binary searches over the segment                                 *)

Definition skey (ks : list bytes) (h : nat) : bytes := nth h ks [].

(* loop of findKeyPos: Some (Some h) found, Some None not found, None = fuel *)
Fixpoint get_loop (ks : list bytes) (key : bytes) (fuel i j : nat)
  : option (option nat) :=
  if j <=? i then Some None
  else
    match fuel with
    | 0 => None
    | S f =>
        let h := i + (j - i) / 2 in
        match bcmp (skey ks h) key with
        | Eq => Some (Some h)
        | Lt => get_loop ks key f (h + 1) j
        | Gt => get_loop ks key f i h
        end
    end.

(* segment.findKeyPos: None is Go's -1.  The ErrSegmentCorrupted guards are
   omitted: they cannot fire on a well-formed segment (see header). *)
Definition find_key_pos (oidx : option index) (ks : list bytes) (key : bytes)
  : option nat :=
  match ks with
  | [] => None                                      (* len(kvs) < 2 *)
  | k0 :: _ =>
      if bltb key k0 then None                      (* smaller than smallest key *)
      else
        let (i, j) := search_index oidx (length ks) key in
        if i =? j then None
        else
          match get_loop ks key (j - i) i j with
          | Some r => r
          | None => None                            (* unreachable: get_loop_fuel *)
          end
  end.

(* loop of findStartKeyInclusivePos *)
Fixpoint start_loop (ks : list bytes) (key : bytes) (fuel i j : nat) : option nat :=
  if j <=? i then Some i
  else
    match fuel with
    | 0 => None
    | S f =>
        let h := i + (j - i) / 2 in
        match bcmp (skey ks h) key with
        | Eq => Some h
        | Lt => start_loop ks key f (h + 1) j
        | Gt => start_loop ks key f i h
        end
    end.

(* segment.findStartKeyInclusivePos.  kvs[0] is read only when i <> j. *)
Definition find_start_pos (oidx : option index) (ks : list bytes) (key : bytes) : nat :=
  let (i, j) := search_index oidx (length ks) key in
  if i =? j then i
  else if bltb key (skey ks 0) then i
  else
    match start_loop ks key (j - i) i j with
    | Some r => r
    | None => i                                     (* unreachable: start_loop_fuel *)
    end.

(* ---------------------------------------------------------------------- *)
(* differential-testing entry point (numbers as N for extraction)           *)

Definition probe_all (quota min_key_bytes : N) (ks : list bytes) (key : bytes)
  : (bool * N * N) * (N * N) * option N * N :=
  let oidx := build_index quota min_key_bytes ks in
  let info :=
    match oidx with
    | Some idx => (true, N.of_nat (ix_hop idx), N.of_nat (length (ix_keys idx)))
    | None => (false, 0%N, 0%N)
    end in
  let (l, r) := search_index oidx (length ks) key in
  (info, (N.of_nat l, N.of_nat r),
   option_map N.of_nat (find_key_pos oidx ks key),
   N.of_nat (find_start_pos oidx ks key)).
