(* Codec.v — word- and byte-level encodings of couchbase/moss.
   Executable definitions only; every lemma is in CodecFacts.v.

   Go sources modelled here:
     segment.go : maskOperation, maskKeyLength, maskValLength, maskRESERVED,
                  maxKeyLength, maxValLength, encodeOpKeyLenValLen,
                  decodeOpKeyLenValLen, the guards of mutateEx
     api.go     : OperationSet / OperationDel / OperationMerge
     store.go   : pageAlignCeil, pageAlignFloor, pageOffset, StorePageSize,
                  StoreEndian (= binary.LittleEndian)                        *)
From Coq Require Export NArith List Bool.
From Moss Require Export Bytes Segment.
Export ListNotations.
Open Scope N_scope.

(* ---------- uint64 ---------- *)

Definition two64 : N := 18446744073709551616.        (* 2^64 *)
Definition u64 (x : N) : N := x mod two64.           (* uint64 wrap-around *)

(* ---------- the constants of segment.go / api.go, as written there ---------- *)

Definition maskOperation : N := 0x0F00000000000000.
Definition maskKeyLength : N := 0x00FFFFFF00000000.
Definition maskValLength : N := 0x000000000FFFFFFF.
Definition maskRESERVED  : N := 0xF0000000F0000000.

Definition maxKeyLength : N := 16777215.             (* 1<<24 - 1 *)
Definition maxValLength : N := 268435455.            (* 1<<28 - 1 *)

Definition OperationSet   : N := 0x0100000000000000.
Definition OperationDel   : N := 0x0200000000000000.
Definition OperationMerge : N := 0x0300000000000000.

(* ---------- encodeOpKeyLenValLen / decodeOpKeyLenValLen ----------

   func encodeOpKeyLenValLen(operation uint64, keyLen, valLen int) uint64 {
       return (maskOperation & operation) |
              (maskKeyLength & (uint64(keyLen) << 32)) |
              (maskValLength & (uint64(valLen)))
   }
   uint64(keyLen) << 32 drops the bits shifted past bit 63: u64 (shiftl ..). *)

Definition encode (op_code key_len val_len : N) : N :=
  N.lor (N.lor (N.land maskOperation op_code)
               (N.land maskKeyLength (u64 (N.shiftl (u64 key_len) 32))))
        (N.land maskValLength (u64 val_len)).

(* func decodeOpKeyLenValLen(opklvl uint64) (uint64, int, int) {
       operation := maskOperation & opklvl
       keyLen := int((maskKeyLength & opklvl) >> 32)
       valLen := int(maskValLength & opklvl)                                   *)
Definition decode (w : N) : N * N * N :=
  (N.land maskOperation w,
   N.shiftr (N.land maskKeyLength w) 32,
   N.land maskValLength w).

(* The guards at the top of mutateEx: None = accepted, Some e = rejected. *)
Inductive mutate_error := ErrKeyTooLarge | ErrValueTooLarge.
Definition mutate_guard (key_len val_len : N) : option mutate_error :=
  if maxKeyLength <? key_len then Some ErrKeyTooLarge
  else if maxValLength <? val_len then Some ErrValueTooLarge
  else None.

(* mutateEx / compactWriter.Mutate:
     if keyLength <= 0 && valLength <= 0 { keyStart = 0 }                      *)
Definition key_start_rule (key_start key_len val_len : N) : N :=
  if (key_len =? 0) && (val_len =? 0) then 0 else key_start.

(* AllocSet / AllocDel / AllocMerge: keyStart := cap(a.buf) - cap(keyFromAlloc).
   A slice a.buf[lo:hi] has cap = cap(a.buf) - lo, so for a slice handed out
   by Alloc at offset lo this is lo again (AllocFacts in CodecFacts.v). *)
Definition alloc_slice_cap (buf_cap lo : N) : N := buf_cap - lo.
Definition alloc_key_start (buf_cap key_cap : N) : N := buf_cap - key_cap.

(* ---------- little-endian integers (encoding/binary.LittleEndian) ---------- *)

(* n low-order bytes of x, least significant first; a value that does not fit
   is truncated exactly as the Go conversion uint32(x) / uint64(x) does. *)
Fixpoint le_enc (n : nat) (x : N) : bytes :=
  match n with
  | O => []
  | S n' => x mod 256 :: le_enc n' (x / 256)
  end.

Fixpoint le_dec (b : bytes) : N :=
  match b with
  | [] => 0
  | c :: r => c + 256 * le_dec r
  end.

Definition le_u32 (x : N) : bytes := le_enc 4 x.
Definition le_u64 (x : N) : bytes := le_enc 8 x.

Definition is_byte (c : N) : bool := c <? 256.
Definition all_bytes (b : bytes) : bool := forallb is_byte b.

(* ---------- page alignment (store.go) ---------- *)

Definition StorePageSize : N := 4096.

(* func pageAlignCeil(pos int64) int64 {
       rem := pos % int64(StorePageSize)
       if rem != 0 { return pos + int64(StorePageSize) - rem }
       return pos }                                       (P = StorePageSize) *)
Definition pageAlignCeil (P pos : N) : N :=
  let rem := pos mod P in
  if rem =? 0 then pos else pos + P - rem.

Definition pageAlignFloor (P pos : N) : N :=
  let rem := pos mod P in
  if rem =? 0 then pos else pos - rem.

Definition aligned (P q : N) : Prop := q mod P = 0.

Definition pageOffset (pos pageSize : N) : N :=
  let rem := pos mod pageSize in
  if rem =? 0 then pos else pos - rem.
