(* Stack.v — segment stacks: point reads (segmentStack.get / getMerged) and
   what mergeInto writes.  Lists are NEWEST FIRST (Go's ss.a is oldest first;
   the harness reverses).  Executable definitions only. *)
From Moss Require Export Segment.

Section WithMerge.
  (* MergeOperator.FullMerge key existing [operand]; total, deterministic
     (recorded in the trusted base); may return nil (None). *)
  Variable fm : bytes -> value -> bytes -> value.

  Definition apply_op (k : bytes) (cur : value) (o : op) : value :=
    match o with
    | OSet v => Some v
    | ODel => None
    | OMerge v => fm k cur v
    end.

  (* segmentStack.get: newest segment holding the key decides; Del stops with
     nil; Merge recurses into what lies underneath; a miss everywhere falls to
     `below` (base stack, lower-level snapshot, or nothing). *)
  Fixpoint sget (st : list segment) (below : bytes -> value) (k : bytes) : value :=
    match st with
    | [] => below k
    | s :: r =>
        match find s k with
        | None => sget r below k
        | Some o => apply_op k (sget r below k) o
        end
    end.

  Definition no_below : bytes -> value := fun _ => None.

  (* --- what mergeInto emits ------------------------------------------- *)

  (* newest op for k among the segments being merged *)
  Fixpoint newest (upper : list segment) (k : bytes) : option op :=
    match upper with
    | [] => None
    | s :: r => match find s k with Some o => Some o | None => newest r k end
    end.

  (* does segment s still have a cursor at key k, i.e. some key >= k ? *)
  Definition has_key_geq (s : segment) (k : bytes) : bool :=
    existsb (fun e => bleb k (fst e)) s.

  Definition cursors_at (upper : list segment) (k : bytes) : nat :=
    length (filter (fun s => has_key_geq s k) upper).

  Definition all_keys (upper : list segment) : list bytes :=
    fold_right (fun s acc => kunion (keys s) acc) [] upper.

  (* resolve a Merge the way mergeInto does: full-chain value, then Set/Del *)
  Definition resolve (v : value) : op :=
    match v with Some b => OSet b | None => ODel end.

  (* merge_range tail incl upper full_get:
       tail  = optimizeTail (in-memory merges: true; compaction: false)
       incl  = includeDeletions (false only for full compaction)
       full_get k = ss.get(key, len(ss.a)-1, base, …): the value of k over the
                    WHOLE stack being merged and whatever is beneath it. *)
  Definition emit_one (tail : bool) (upper : list segment)
             (full_get : bytes -> value) (k : bytes) : option entry :=
    match newest upper k with
    | None => None
    | Some o =>
        if tail && Nat.eqb (cursors_at upper k) 1 then Some (k, o)
        else match o with
             | OMerge _ => Some (k, resolve (full_get k))
             | _ => Some (k, o)
             end
    end.

  Definition skip_del (incl : bool) (upper : list segment) (k : bytes) : bool :=
    negb incl && match newest upper k with Some ODel => true | _ => false end.

  Fixpoint emit_all (tail incl : bool) (upper : list segment)
           (full_get : bytes -> value) (ks : list bytes) : segment :=
    match ks with
    | [] => []
    | k :: r =>
        if skip_del incl upper k then emit_all tail incl upper full_get r
        else match emit_one tail upper full_get k with
             | Some e => e :: emit_all tail incl upper full_get r
             | None => emit_all tail incl upper full_get r
             end
    end.

  Definition merge_range (tail incl : bool) (upper : list segment)
             (full_get : bytes -> value) : segment :=
    emit_all tail incl upper full_get (all_keys upper).

  (* segmentStack.merge for one collection level: ss = upper ++ lower with
     |lower| = lvl kept untouched; returns merged :: lower. *)
  Definition split_at (lvl : nat) (ss : list segment) : list segment * list segment :=
    (firstn (length ss - lvl) ss, skipn (length ss - lvl) ss).

  Definition merge_stack (lvl : nat) (ss : list segment) (below : bytes -> value)
    : list segment :=
    let '(upper, lower) := split_at lvl ss in
    merge_range true true upper (sget ss below) :: lower.

  (* calcTargetTopLevel: MinMergePercentage as the rational pn/pd.
     float64(n1)/float64(n0) > p  <->  n1*pd > pn*n0 for n0 > 0; n0 = 0 gives +Inf/NaN:
     +Inf > p breaks; NaN (0/0) > p is false and continues. lens oldest first. *)
  Fixpoint calc_top_level_aux (pn pd : N) (lens : list N) (lvl : nat) (fuel : nat) : nat :=
    match fuel with
    | O => lvl
    | S f =>
        match lens with
        | n0 :: ((n1 :: _) as r) =>
            (* loop condition newTopLevel < len-2 handled by caller trimming *)
            let brk := if N.eqb n0 0 then negb (N.eqb n1 0)
                       else N.ltb (pn * n0) (n1 * pd) in
            if brk then lvl else calc_top_level_aux pn pd r (S lvl) f
        | _ => lvl
        end
    end.
  Definition calc_target_top_level (pn pd : N) (lens_oldest_first : list N) : nat :=
    (* maxTopLevel = len-2: the loop inspects pairs (i,i+1) for i < len-2, so
       drop the last element *)
    let l := removelast lens_oldest_first in
    calc_top_level_aux pn pd l 0 (length l).
End WithMerge.

(* The concrete operator used by the harness: existing ++ ":" ++ operand
   (MergeOperatorStringAppend with Sep ":"), except that operand "!" yields
   nil — exercises FullMerge returning nil — and operand "=" keeps an existing
   value as it is (the harness operator then returns the very slice it was
   given: exercises value ownership). *)
Definition fm_append (k : bytes) (cur : value) (v : bytes) : value :=
  match v, cur with
  | [33%N], _ => None
  | [61%N], Some c => Some c
  | _, _ => Some (match cur with Some c => c | None => [] end ++ 58%N :: v)
  end.
