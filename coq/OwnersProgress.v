(* OwnersProgress.v -- the executable precondition of PROGRESS for the ownership
   model (Owners.v) and its extension (OwnersRevert.v).

   legal st op says what the CALLER controls and nothing about the heap: the
   operation is one of the current code (not one of the ..._pre_fix variants the
   model keeps to refute the code before a repair).  Nothing else is needed:
   the operations of the model are guarded the way the API is (a call on a
   closed collection or store, a handle index that is not in the handle table,
   a merger / persister step out of turn are no-ops: ErrClosed, nothing
   counted), so no discipline about handles or the order of calls has to be
   asked of the caller.  It mentions no reference count and no liveness of any
   object.  The proofs (OwnersProgressFacts.v) show that from every reachable
   state every legal operation runs to its end.  Definitions only. *)
From Coq Require Import List Bool.
From Moss Require Import Owners OwnersRevert.
Import ListNotations.

Definition legal (st : state) (o : op) : bool := current_code o.

(* every operation of the sequence is legal in the state it is applied in; a
   state the model would refuse to leave (there is none: legal_use_never_faults)
   ends the check *)
Fixpoint legal_seq_from (st : state) (ops : list op) : bool :=
  match ops with
  | [] => true
  | o :: r => legal st o && match step o st with
                            | Some st' => legal_seq_from st' r
                            | None => true
                            end
  end.
Definition legal_seq (ops : list op) : bool := legal_seq_from init ops.

(* the index of the first operation that is not legal where it is applied
   (None: the whole sequence is legal) -- what ocaml/ownersrun evaluates on
   every scenario the real code executes *)
Fixpoint first_illegal_from (st : state) (i : nat) (ops : list op) : option nat :=
  match ops with
  | [] => None
  | o :: r => if legal st o
              then match step o st with
                   | Some st' => first_illegal_from st' (S i) r
                   | None => None
                   end
              else Some i
  end.
Definition first_illegal (ops : list op) : option nat := first_illegal_from init 0 ops.

(* the extended system *)
Definition xlegal (st : state) (x : xop) : bool := xcurrent_code x.

Fixpoint xlegal_seq_from (st : state) (ops : list xop) : bool :=
  match ops with
  | [] => true
  | o :: r => xlegal st o && match xstep o st with
                             | Some st' => xlegal_seq_from st' r
                             | None => true
                             end
  end.
Definition xlegal_seq (ops : list xop) : bool := xlegal_seq_from init ops.

Fixpoint xfirst_illegal_from (st : state) (i : nat) (ops : list xop) : option nat :=
  match ops with
  | [] => None
  | o :: r => if xlegal st o
              then match xstep o st with
                   | Some st' => xfirst_illegal_from st' (S i) r
                   | None => None
                   end
              else Some i
  end.
Definition xfirst_illegal (ops : list xop) : option nat := xfirst_illegal_from init 0 ops.
