(* Refuted.v — concrete witnesses (by computation) that the full statements
   were false of the code as pinned, before the repairs recorded in
   /verif/known_findings.jsonl.  Each witness was replayed on the
   implementation (corpus/witness). *)
From Coq Require Import List NArith Bool.
From Moss Require Import Bytes Segment Stack Collection.

Definition ka : bytes := [97%N].
Definition v1 : bytes := [49%N].
Definition cfg_mem : cfg := {| cache_persisted := false; has_ll := false |}.

(* Collection.Get, looked up section by section, returns a deleted key's old
   value: Set in mid, Del in top. *)
Theorem C10_refuted_pre_fix :
  exists ls s k,
    run fm_append cfg_mem (init []) ls = Some s /\
    coll_get_sectionwise fm_append s k <> snap_get fm_append (mk_snapshot s) k.
Proof.
  exists [LBatch [(ka, OSet v1)]; LIngest; LSwap 0; LHandover; LBatch [(ka, ODel)]].
  eexists. exists ka. split; [vm_compute; reflexivity|]. vm_compute. discriminate.
Qed.

(* A clean section holding a Merge operand, read on top of the lower level
   that already contains it, applies the operand twice. *)
Theorem C08_refuted_pre_fix_cached_merge :
  exists (b : list segment) (k : bytes),
    sget fm_append b (sget fm_append b no_below) k <> sget fm_append b no_below k.
Proof.
  exists [[(ka, OMerge v1)]], ka. vm_compute. discriminate.
Qed.
