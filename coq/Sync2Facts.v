(* Sync2Facts.v - proofs about the wait/notify protocol of Sync2.v *)
From Coq Require Import List Arith Bool Lia Wellfounded Relation_Operators.
Import ListNotations.
From Moss Require Import Sync2.

Definition pz (p : mpc) : bool := match p with MCheck | MSelect | MExit | MDone => true | _ => false end.
Definition mexiting (p : mpc) : bool := match p with MExit | MDone => true | _ => false end.
Definition cjoinedM (p : cpc) : bool := match p with CJoinP | CFinal | CRet => true | _ => false end.
Definition cjoinedP (p : cpc) : bool := match p with CFinal | CRet => true | _ => false end.

Ltac zs := cbn [pz mexiting cjoinedM cjoinedP z_top z_mid z_base z_closed z_armed z_incc z_out z_onext z_oready z_q z_lk z_mp z_pongs z_hp z_pp z_cp z_wwait z_wwoken z_wsort z_wclcur z_wclold z_wok z_werr z_nsyn z_nasy z_nans z_naret z_nerr set_top set_mid set_base set_closed set_armed set_incc set_out set_onext set_oready set_q set_lk set_mp set_pongs set_hp set_pp set_cp set_wwait set_wwoken set_wsort set_wclcur set_wclold set_wok set_werr set_nsyn set_nasy set_nans set_naret set_nerr] in *.

Ltac b2p :=
  repeat match goal with
  | H : (_ && _) = true |- _ => apply andb_true_iff in H; destruct H
  | H : (_ || _) = false |- _ => apply orb_false_iff in H; destruct H
  | H : (_ && _) = false |- _ => apply andb_false_iff in H; destruct H
  | H : negb _ = true |- _ => apply negb_true_iff in H
  | H : negb _ = false |- _ => apply negb_false_iff in H
  | H : (_ <=? _) = true |- _ => apply Nat.leb_le in H
  | H : (_ <=? _) = false |- _ => apply Nat.leb_gt in H
  | H : (_ <? _) = true |- _ => apply Nat.ltb_lt in H
  | H : (_ <? _) = false |- _ => apply Nat.ltb_ge in H
  | H : (_ =? _) = true |- _ => apply Nat.eqb_eq in H
  | H : (_ =? _) = false |- _ => apply Nat.eqb_neq in H
  end.

(* split a hypothesis  step c s l = Some s'  into its cases *)
Ltac step_cases H :=
  unfold step, step_gen, guard in H;
  repeat match type of H with
    | (match ?x with _ => _ end) = Some _ =>
        let E := fresh "E" in destruct x eqn:E; try discriminate H
    end;
  injection H as H; subst.

Ltac goal_cases :=
  repeat match goal with
    | |- context[match ?x with _ => _ end] => let E := fresh "E" in destruct x eqn:E
    end.

Ltac triv := solve [assumption | congruence | lia].
Ltac sat :=
  repeat match goal with
  | H : _ /\ _ |- _ => destruct H
  | H : (forall g, MWaitOut ?g0 = MWaitOut g -> _) |- _ => specialize (H g0 eq_refl)
  | H : (forall g, z_mp ?s = MWaitOut g -> _), E : z_mp ?s = MWaitOut ?g0 |- _ => specialize (H g0 E)
  | H : (forall g, z_mp ?s = MWaitOut g -> _), E : z_mp ?s = _ |- _ => clear H
  | H : ?A -> _ |- _ =>
      match type of A with Prop => idtac end;
      let HA := fresh in assert (HA : A) by triv; specialize (H HA); clear HA
  end.
Ltac outdec := match goal with
  | H : z_out ?s <> Some ?g -> _ |- _ =>
     let D := fresh in
     assert (D : z_out s = Some g \/ z_out s <> Some g)
       by (destruct (z_out s) as [x|];
           [destruct (Nat.eq_dec x g); [left; congruence | right; congruence] | right; congruence]);
     destruct D as [D|D]; [ try triv | specialize (H D); try triv ]
  end.
Ltac rw := repeat match goal with
  | E : z_mp ?s = _ |- context[z_mp ?s] => rewrite E
  | E : z_pp ?s = _ |- context[z_pp ?s] => rewrite E
  | E : z_cp ?s = _ |- context[z_cp ?s] => rewrite E
  | E : z_closed ?s = _ |- context[z_closed ?s] => rewrite E
  end.
Ltac fin := subst; rw; zs; b2p; sat; repeat split; intros; zs; b2p; sat; try triv; try outdec.

Section Facts.
Variable c : config.
Hypothesis cap_pos : 1 <= c_cap c.
Hypothesis qcap_pos : 1 <= c_qcap c.

(* ------------------------------------------------------------------ *)
(* the invariant of the current code (Horn clauses, so that it can be used by forward chaining) *)
Definition inv (s : state) : Prop :=
  z_top s <= c_cap c /\
  z_lk s = false /\
  z_wsort s = 0 /\
  z_pp s <> PSendLocked /\
  (0 < z_wwait s -> z_top s = c_cap c) /\
  (0 < z_wwait s -> z_closed s = false) /\
  (z_armed s = true -> z_top s = 0) /\
  (z_mp s = MSelect -> z_armed s = false -> z_incc s = false -> 0 < z_wclcur s) /\
  (pz (z_mp s) = true -> z_pongs s = 0) /\
  (z_pp s = PWait -> z_base s = false) /\
  (z_pp s = PWait -> z_closed s = false) /\
  (forall g, z_mp s = MWaitOut g -> z_oready s = false -> z_out s <> Some g ->
             z_pp s = PCloseOut (Some g)) /\
  (z_out s <> None -> z_cp s <> CRet -> z_base s = true) /\
  (z_pp s = PDone -> c_ll c = true -> z_closed s = true) /\
  (c_ll c = false -> z_base s = false) /\
  (c_ll c = false -> z_out s = None) /\
  (c_ll c = false -> z_pp s = PDone) /\
  (z_closed s = true -> z_cp s <> CIdle) /\
  (z_closed s = false -> z_cp s = CIdle) /\
  (mexiting (z_mp s) = true -> z_closed s = true) /\
  (cjoinedM (z_cp s) = true -> z_mp s = MDone) /\
  (cjoinedP (z_cp s) = true -> z_pp s = PDone).

Lemma inv_init : inv (init c).
Proof. unfold inv, init; destruct (c_ll c) eqn:E; fin. Qed.

Lemma inv_step s l s' : inv s -> step c s l = Some s' -> inv s'.
Proof.
  intros I H. unfold inv in I. revert I.
  destruct l; step_cases H.
  all: unfold inv, writer_enter, broadcast_base, broadcast_top, room in *; zs.
  all: goal_cases; zs; intro I.
  all: solve [fin].
Qed.

Definition reachable (s : state) : Prop := exists ls, run c (init c) ls = Some s.

Lemma run_app m s ls1 ls2 :
  run_gen m c s (ls1 ++ ls2) =
  match run_gen m c s ls1 with Some s1 => run_gen m c s1 ls2 | None => None end.
Proof.
  revert s; induction ls1 as [|l r IH]; intros s; simpl; auto.
  destruct (step_gen m c s l); auto.
Qed.

Lemma inv_run ls : forall s s', inv s -> run c s ls = Some s' -> inv s'.
Proof.
  induction ls as [|l r IH]; intros s s' I H; simpl in H.
  - injection H as <-; auto.
  - unfold run in H; simpl in H. destruct (step_gen MutNone c s l) eqn:E; [|discriminate].
    eapply IH; [|exact H]. eapply inv_step; eauto.
Qed.

Theorem reachable_inv s : reachable s -> inv s.
Proof. intros [ls H]. eapply inv_run; [apply inv_init | exact H]. Qed.

(* ------------------------------------------------------------------ *)
(* (1) safety *)
Theorem bounded_top2 s : reachable s -> z_top s <= c_cap c.
Proof. intros R. apply reachable_inv in R. apply R. Qed.

(* no lost wake-up: a writer inside stackDirtyTopCond.Wait() that no Broadcast has
   reached yet (the woken ones are counted in z_wwoken) really is held back: the
   top is full and the collection is open *)
Theorem no_lost_wakeup s :
  reachable s -> 0 < z_wwait s -> z_top s = c_cap c /\ z_closed s = false.
Proof. intros R W. apply reachable_inv in R. unfold inv in R. sat. auto. Qed.

(* (3) nobody blocks while holding the collection lock: between two steps the lock
   is free, i.e. every critical section runs to its Unlock / Wait without a
   blocking operation in it *)
Theorem no_block_under_lock s : reachable s -> z_lk s = false.
Proof. intros R. apply reachable_inv in R. apply R. Qed.

(* after Close a new ExecuteBatch reports ErrClosed and changes nothing else; so
   does a writer that was blocked *)
Theorem after_close_execute_batch s :
  reachable s -> z_closed s = true ->
  exists s', step c s LWCall = Some s' /\ z_werr s' = S (z_werr s) /\ z_wok s' = z_wok s /\
             z_top s' = z_top s /\ z_wwait s' = z_wwait s /\ z_wclcur s' = z_wclcur s.
Proof.
  intros R Cl. apply reachable_inv in R. destruct R as (_ & Lk & _).
  unfold step, step_gen, guard, writer_enter. rewrite Lk, Cl. cbn [negb andb].
  destruct (c_cap c <=? z_top s); eexists; split; try reflexivity; zs; auto.
Qed.

Theorem after_close_blocked_writer s s' :
  reachable s -> z_closed s = true -> step c s LWRecheck = Some s' ->
  z_werr s' = S (z_werr s) /\ z_wwoken s' = z_wwoken s - 1 /\ z_top s' = z_top s.
Proof.
  intros R Cl H. step_cases H. unfold writer_enter in *. zs. rewrite Cl.
  destruct (negb false && (c_cap c <=? z_top s)); zs; auto.
Qed.

Lemma closed_stays s l s' : step c s l = Some s' -> z_closed s = true -> z_closed s' = true.
Proof.
  intros H Cl. destruct l; step_cases H;
  unfold writer_enter, broadcast_base, broadcast_top in *; zs; goal_cases; zs; subst; zs;
  try reflexivity; try assumption; try congruence.
Qed.

Lemma bg_keeps_open s l s' :
  step c s l = Some s' -> bg l = true -> z_closed s = false -> z_closed s' = false.
Proof.
  intros H B Cl. destruct l; try discriminate B; step_cases H;
  unfold writer_enter, broadcast_base, broadcast_top in *; zs; goal_cases; zs; subst; zs;
  try reflexivity; try assumption; try congruence.
Qed.

(* ------------------------------------------------------------------ *)
(* Close releases the notifiers (the repaired NotifyMerger, collection_merger.go 31-45) *)
Lemma orphan_nsync : forall n q q',
  orphan_nth n q = Some q' -> nsync q = S (nsync q') /\ length q' = length q.
Proof.
  induction n as [|k IH]; intros [|b r] q' H; simpl in H; try discriminate.
  - destruct b; try discriminate. injection H as <-. simpl. auto.
  - destruct (orphan_nth k r) as [r'|] eqn:E; [|destruct b; discriminate].
    assert (H' : Some (b :: r') = Some q') by (destruct b; exact H).
    injection H' as <-. destruct (IH r r' E) as [A B]. simpl. rewrite A, B. split; auto; lia.
Qed.

Lemma orphan_exists : forall q, 0 < nsync q -> exists n q', orphan_nth n q = Some q'.
Proof.
  induction q as [|b r IH]; simpl; intros H; [lia|].
  destruct b.
  - exists 0, (false :: r). reflexivity.
  - destruct (IH H) as (n & r' & E). exists (S n), (false :: r'). simpl. rewrite E. reflexivity.
Qed.

Definition is_stop (l : step_label) : bool :=
  match l with LNStopSend _ | LNStopWaitQ _ | LNStopWaitP => true | _ => false end.

(* notifiers in flight: about to send, or waiting for their pong *)
Definition notif_pending (s : state) : nat := z_nsyn s + z_nasy s + waitpong s.

(* once stopCh is closed (already from LCBegin on, not only after Close has returned) every
   NotifyMerger call in flight has an enabled step of its own with which it returns
   ErrClosed - whatever the merger, the persister, the queue or the lock are doing *)
Theorem close_releases_all s :
  z_closed s = true -> 0 < notif_pending s ->
  exists l s', is_stop l = true /\ step c s l = Some s' /\
               S (notif_pending s') = notif_pending s /\ z_nerr s' = S (z_nerr s) /\
               z_nans s' = z_nans s.
Proof.
  intros Cl P. unfold notif_pending, waitpong in *.
  destruct (0 <? z_nsyn s) eqn:C1.
  { exists (LNStopSend true). eexists. split; [reflexivity|].
    unfold step, step_gen, guard. rewrite Cl, C1. cbn [andb]. split; [reflexivity|]. zs. b2p.
    repeat split; lia. }
  destruct (0 <? z_nasy s) eqn:C2.
  { exists (LNStopSend false). eexists. split; [reflexivity|].
    unfold step, step_gen, guard. rewrite Cl, C2. cbn [andb]. split; [reflexivity|]. zs. b2p.
    repeat split; lia. }
  destruct (0 <? z_pongs s) eqn:C3.
  { exists LNStopWaitP. eexists. split; [reflexivity|].
    unfold step, step_gen, guard. rewrite Cl, C3. cbn [andb]. split; [reflexivity|]. zs. b2p.
    repeat split; lia. }
  b2p. assert (Q : 0 < nsync (z_q s)) by lia.
  destruct (orphan_exists _ Q) as (n & q' & E).
  destruct (orphan_nsync _ _ _ E) as [A B].
  exists (LNStopWaitQ n). eexists. split; [reflexivity|].
  unfold step, step_gen. rewrite Cl, E. split; [reflexivity|]. zs. repeat split; lia.
Qed.

(* ... and a call made after Close does not block either: it returns ErrClosed *)
Theorem notify_after_close_returns s b :
  z_closed s = true ->
  exists s1 s2, step c s (LNCall b) = Some s1 /\ step c s1 (LNStopSend b) = Some s2 /\
                notif_pending s2 = notif_pending s /\ z_nerr s2 = S (z_nerr s).
Proof.
  intros Cl. destruct b; eexists; eexists; (split; [reflexivity|]);
  unfold step, step_gen, guard; zs; rewrite Cl; cbn [andb Nat.ltb Nat.leb];
  (split; [reflexivity|]); unfold notif_pending, waitpong; zs; split; lia.
Qed.

(* ------------------------------------------------------------------ *)
(* the repaired sleep decision of the merger (collection_merger.go 683d401: handoverPending,
   retryHandover): (K1) past a hand-over attempt that left something in stackDirtyMid the
   merger remembers it; (K2) a sleeping merger with unpersisted stackDirtyMid, an idle
   persister and an empty stackDirtyBase can be woken.  Not invariants of LMMergeFail: a
   failed merge skips the hand-over attempt and clears the flag (`continue OUTER`). *)
Definition afterh (p : mpc) : bool :=
  match p with MReply | MCheck | MWaitOut _ => true | _ => false end.

Definition invK (s : state) : Prop :=
  (c_ll c = true -> z_mid s = true -> afterh (z_mp s) = true -> z_hp s = true) /\
  (c_ll c = true -> z_mp s = MSelect -> z_mid s = true -> z_base s = false -> z_pp s = PWait ->
   length (z_q s) = 0 -> z_incc s = false -> 0 < z_wclcur s).

Lemma invK_init : invK (init c).
Proof. unfold invK, init; zs. split; intros; discriminate. Qed.

Lemma invK_step s l s' :
  inv s -> invK s -> l <> LMMergeFail -> step c s l = Some s' -> invK s'.
Proof.
  intros I K NF H. unfold inv in I. unfold invK in *. destruct K as [K1 K2].
  destruct l; try congruence; step_cases H.
  all: unfold writer_enter, broadcast_base, broadcast_top, room in *; zs.
  all: goal_cases; zs; cbn [afterh length] in *.
  all: split; intros; subst; zs; try discriminate; try congruence;
       try (rewrite app_length in *; cbn [length] in *; lia).
  all: try (match goal with H : orphan_nth _ _ = Some _ |- _ =>
              apply orphan_nsync in H; destruct H as [_ H]; try rewrite H in * end).
  all: b2p; sat; try triv.
  all: try (destruct (z_armed s) eqn:?; sat; triv).
  all: repeat match goal with E : z_mp ?s = _ |- _ => rewrite E in * end; cbn [afterh] in *;
       try discriminate; sat; try triv.
Qed.

Definition reachable_nf (s : state) : Prop :=
  exists ls, ~ In LMMergeFail ls /\ run c (init c) ls = Some s.

Lemma invK_run ls : forall s s',
  inv s -> invK s -> ~ In LMMergeFail ls -> run c s ls = Some s' -> inv s' /\ invK s'.
Proof.
  induction ls as [|l r IH]; intros s s' I K NF H; unfold run in H; simpl in H.
  - injection H as <-; auto.
  - destruct (step_gen MutNone c s l) eqn:E; [|discriminate].
    eapply IH; [| | |exact H].
    + eapply inv_step; eauto.
    + eapply invK_step; eauto. intros ->. apply NF. left; reflexivity.
    + intros X. apply NF. right; exact X.
Qed.

Theorem reachable_nf_inv s : reachable_nf s -> inv s /\ invK s.
Proof. intros (ls & NF & H). eapply invK_run; eauto using inv_init, invK_init. Qed.

End Facts.

(* ------------------------------------------------------------------ *)
(* the five seeded defects are visible in this model: for each, the theorem it
   breaks is false for the mutated step function, by a computed witness *)
Definition reachable_gen (m : mutation) (c : config) (s : state) : Prop :=
  exists ls, run_gen m c (init c) ls = Some s.

(* no background / in-flight step is enabled *)
Definition stuck (m : mutation) (c : config) (s : state) : Prop :=
  forall l, bg l = true -> step_gen m c s l = None.

Definition cfg_plain := {| c_cap := 1; c_qcap := 10; c_ll := true; c_over := fun _ _ _ => false |}.
Definition cfg_limits :=
  {| c_cap := 1; c_qcap := 10; c_ll := true; c_over := fun t m b => (0 <? t) || m || b |}.
Definition cfg_noll := {| c_cap := 1; c_qcap := 10; c_ll := false; c_over := fun _ _ _ => false |}.

Ltac stuck_tac := intros l B; destruct l; try discriminate B;
  try (match goal with b : bool |- _ => destruct b end); vm_compute; reflexivity.

(* Mut1: the persister's ping is a blocking send under the collection lock.  The
   schedule of the harness's stall scenario: base busy, mid left behind, the merger
   woken by a ping (waitDirtyIncomingCh still armed) and parked before its ingest,
   ten more pings fill the queue, the persister publishes and loops around. *)
Definition sched_mut1 : list step_label :=
  [LMReply; LMCheck; LPTop;
   LWCall; LWCloseInc; LMSelInc; LMDrain; LMIngest; LMMergeOk; LMHandover;
   LPTop; LPChk;
   LMReply; LMCheck;
   LWCall; LWCloseInc; LMSelInc; LMDrain; LMIngest; LMMergeOk; LMHandover; LMReply; LMCheck;
   LNCall false; LNSend false; LMSelPing; LMDrain ] ++
  concat (repeat [LNCall false; LNSend false] 10) ++
  [LPUpdOk; LPPublish; LPCloseOut; LPTop].

Theorem no_block_under_lock_mut1_refuted :
  ~ (forall s, reachable_gen Mut1 cfg_plain s -> z_lk s = false).
Proof.
  intros H.
  destruct (run_gen Mut1 cfg_plain (init cfg_plain) sched_mut1) as [s|] eqn:E; [|vm_compute in E; discriminate].
  assert (R : reachable_gen Mut1 cfg_plain s) by (exists sched_mut1; exact E).
  apply H in R. vm_compute in E. injection E as <-. discriminate R.
Qed.

(* ... and then nothing at all can run any more: not the merger (it needs the lock),
   not a new ExecuteBatch, not Close *)
Theorem deadlock_free_mut1_refuted :
  exists s, reachable_gen Mut1 cfg_plain s /\ z_lk s = true /\ z_pp s = PSendLocked /\
            stuck Mut1 cfg_plain s /\
            step_mut1 cfg_plain s LWCall = None /\ step_mut1 cfg_plain s LCBegin = None.
Proof.
  destruct (run_gen Mut1 cfg_plain (init cfg_plain) sched_mut1) as [s|] eqn:E; [|vm_compute in E; discriminate].
  exists s. split; [exists sched_mut1; exact E|].
  vm_compute in E. injection E as <-.
  repeat split; try reflexivity. stuck_tac.
Qed.

(* Mut2: `if` instead of `for` around the back-pressure wait: two woken writers both push *)
Definition sched_mut2 : list step_label :=
  [LMReply; LMCheck; LWCall; LWCloseInc; LWCall; LWCall; LMSelInc; LMDrain; LMIngest;
   LWRecheck; LWRecheck].

Theorem bounded_top_mut2_refuted :
  ~ (forall s, reachable_gen Mut2 cfg_noll s -> z_top s <= c_cap cfg_noll).
Proof.
  intros H.
  destruct (run_gen Mut2 cfg_noll (init cfg_noll) sched_mut2) as [s|] eqn:E; [|vm_compute in E; discriminate].
  assert (R : reachable_gen Mut2 cfg_noll s) by (exists sched_mut2; exact E).
  apply H in R. vm_compute in E. injection E as <-. vm_compute in R. lia.
Qed.

(* Mut3: after a failed LowerLevelUpdate the persister waits on stackDirtyBaseCond; with
   dirty limits the merger waits on the outgoing channel, the top fills, a writer waits *)
Definition sched_mut3 : list step_label :=
  [LMReply; LMCheck; LPTop; LWCall; LWCloseInc; LMSelInc; LMDrain; LMIngest; LMMergeOk; LMHandover;
   LPTop; LPChk; LPUpdFail; LWCall; LWCall].

Theorem deadlock_free_mut3_refuted :
  exists s, reachable_gen Mut3 cfg_limits s /\ z_closed s = false /\ 0 < z_wwait s /\
            z_pp s = PWait /\ z_base s = true /\ stuck Mut3 cfg_limits s.
Proof.
  destruct (run_gen Mut3 cfg_limits (init cfg_limits) sched_mut3) as [s|] eqn:E; [|vm_compute in E; discriminate].
  exists s. split; [exists sched_mut3; exact E|].
  vm_compute in E. injection E as <-.
  repeat split; try reflexivity; try (vm_compute; lia). stuck_tac.
Qed.

(* Mut4: a DeferredSort writer unlocks, sorts, relocks and waits without re-checking:
   the merger's ingest and its Broadcast fall into the sort *)
Definition sched_mut4 : list step_label :=
  [LMReply; LMCheck; LWCall; LWCloseInc; LWCall; LMSelInc; LMDrain; LMIngest; LWRelock;
   LMMergeOk; LMHandover; LMReply; LMCheck].

Theorem no_lost_wakeup_mut4_refuted :
  exists s, reachable_gen Mut4 cfg_noll s /\ 0 < z_wwait s /\ z_top s < c_cap cfg_noll /\
            z_closed s = false /\ stuck Mut4 cfg_noll s.
Proof.
  destruct (run_gen Mut4 cfg_noll (init cfg_noll) sched_mut4) as [s|] eqn:E; [|vm_compute in E; discriminate].
  exists s. split; [exists sched_mut4; exact E|].
  vm_compute in E. injection E as <-.
  repeat split; try reflexivity; try (vm_compute; lia). stuck_tac.
Qed.

(* Mut5: the exiting merger does not answer the pings still queued: Close has returned,
   every goroutine is gone, the synchronous NotifyMerger waits forever *)
Definition sched_mut5 : list step_label :=
  [LMReply; LMCheck; LNCall true; LNSend true; LCBegin; LMSelStop; LMExit; LCJoinM; LCJoinP; LCFinal].

Theorem exit_answers_all_mut5_refuted :
  exists s, reachable_gen Mut5 cfg_noll s /\ z_cp s = CRet /\ z_mp s = MDone /\
            waitpong s = 1 /\ z_nans s = 0.
Proof.
  destruct (run_gen Mut5 cfg_noll (init cfg_noll) sched_mut5) as [s|] eqn:E; [|vm_compute in E; discriminate].
  exists s. split; [exists sched_mut5; exact E|].
  vm_compute in E. injection E as <-.
  repeat split; reflexivity.
Qed.

(* the statement Mut5 breaks, for the current code: the exiting merger answers every
   synchronous ping that is still listened to, queued or collected *)
Theorem exit_answers_all c s s' :
  step c s LMExit = Some s' ->
  waitpong s' = 0 /\ z_nans s' = z_nans s + waitpong s /\ z_mp s' = MDone.
Proof.
  intros H. step_cases H. unfold waitpong; zs. cbn [nsync]. repeat split; lia.
Qed.

(* the same schedules on the current code end in states that can go on / are answered *)
Example sched_mut1_current_ok :
  exists s, run cfg_plain (init cfg_plain) sched_mut1 = Some s /\ z_lk s = false /\
            step cfg_plain s LMIngest <> None.
Proof.
  destruct (run cfg_plain (init cfg_plain) sched_mut1) as [s|] eqn:E; [|vm_compute in E; discriminate].
  exists s. split; auto. vm_compute in E. injection E as <-. split; [reflexivity|vm_compute; discriminate].
Qed.
Example sched_mut5_current_ok :
  exists s, run cfg_noll (init cfg_noll) sched_mut5 = Some s /\ z_nans s = 1 /\ waitpong s = 0.
Proof.
  destruct (run cfg_noll (init cfg_noll) sched_mut5) as [s|] eqn:E; [|vm_compute in E; discriminate].
  exists s. split; auto. vm_compute in E. injection E as <-. split; reflexivity.
Qed.

(* ------------------------------------------------------------------ *)
(* Mut6 = the code before the repair of the notify-after-Close hang: NotifyMerger has no stop case.  Once the merger
   has run its exit handler nobody receives from pingMergerCh any more:
   (a) a synchronous NotifyMerger issued (or whose send lands) after that is never
       answered - the call hangs forever although Close has returned;
   (b) after cap(pingMergerCh) further notifications even an asynchronous NotifyMerger
       blocks forever in its send.
   So "Close releases every caller / after Close every call returns" is false for
   NotifyMerger.  (F27's repair only covers pings sent before the exit handler ran.) *)
Lemma merger_done_forever c s l s' :
  step_mut6 c s l = Some s' -> z_mp s = MDone ->
  z_mp s' = MDone /\ z_nans s' = z_nans s /\ length (z_q s) <= length (z_q s') /\
  nsync (z_q s) <= nsync (z_q s').
Proof.
  intros H D.
  assert (A : forall (q : list bool) b, length q <= length (q ++ [b]) /\ nsync q <= nsync (q ++ [b])).
  { induction q as [|x r IH]; intros b; simpl; [lia|]. destruct (IH b). lia. }
  unfold step_mut6 in H. destruct l;
  try (match goal with b : bool |- _ => destruct b end);
  try (unfold step_gen in H; discriminate H);
  step_cases H; try congruence;
  unfold writer_enter, broadcast_base, broadcast_top, room in *; zs.
  all: repeat match goal with |- context[if ?b then _ else _] => destruct b end; zs.
  all: try rewrite D in *; try discriminate.
  all: try (match goal with g : option nat |- _ => destruct g end); zs.
  all: repeat match goal with |- context[match z_pp ?x with _ => _ end] => destruct (z_pp x) end; zs.
  all: repeat split; auto; try apply A; try lia.
Qed.

Lemma merger_done_forever_run c ls : forall s s',
  run_gen Mut6 c s ls = Some s' -> z_mp s = MDone ->
  z_mp s' = MDone /\ z_nans s' = z_nans s /\ length (z_q s) <= length (z_q s') /\
  nsync (z_q s) <= nsync (z_q s').
Proof.
  induction ls as [|l r IH]; intros s s' H D; simpl in H.
  - injection H as <-. repeat split; auto.
  - destruct (step_gen Mut6 c s l) as [s1|] eqn:E; [|discriminate].
    destruct (merger_done_forever c s l s1 E D) as (D1 & A1 & L1 & N1).
    destruct (IH s1 s' H D1) as (D2 & A2 & L2 & N2). repeat split; auto; lia.
Qed.

Definition sched_notify_after_close : list step_label :=
  [LMReply; LMCheck; LCBegin; LMSelStop; LMExit; LCJoinM; LCJoinP; LCFinal;
   LNCall true; LNSend true].

Theorem close_releases_all_mut6_refuted :
  exists s, reachable_gen Mut6 cfg_noll s /\ z_cp s = CRet /\ z_mp s = MDone /\ z_pp s = PDone /\
    waitpong s = 1 /\
    (forall ls s', run_gen Mut6 cfg_noll s ls = Some s' -> 1 <= waitpong s' /\ z_nans s' = z_nans s).
Proof.
  destruct (run_gen Mut6 cfg_noll (init cfg_noll) sched_notify_after_close) as [s|] eqn:E; [|vm_compute in E; discriminate].
  exists s. split; [exists sched_notify_after_close; exact E|].
  vm_compute in E. injection E as <-.
  split; [reflexivity|]. split; [reflexivity|]. split; [reflexivity|]. split; [reflexivity|].
  intros ls s' H.
  pose proof (merger_done_forever_run _ _ _ _ H eq_refl) as (_ & A & _ & N).
  split; [|exact A]. unfold waitpong. cbn [nsync z_q] in N. lia.
Qed.

Definition sched_notify_queue_full : list step_label :=
  [LMReply; LMCheck; LCBegin; LMSelStop; LMExit; LCJoinM; LCJoinP; LCFinal] ++
  concat (repeat [LNCall false; LNSend false] 10) ++ [LNCall false].

Theorem async_notify_after_close_blocks_mut6_refuted :
  exists s, reachable_gen Mut6 cfg_noll s /\ z_cp s = CRet /\ z_nasy s = 1 /\
    (forall ls s', run_gen Mut6 cfg_noll s ls = Some s' ->
       step_mut6 cfg_noll s' (LNSend false) = None /\ step_mut6 cfg_noll s' (LNStopSend false) = None).
Proof.
  destruct (run_gen Mut6 cfg_noll (init cfg_noll) sched_notify_queue_full) as [s|] eqn:E; [|vm_compute in E; discriminate].
  exists s. split; [exists sched_notify_queue_full; exact E|].
  vm_compute in E. injection E as <-.
  split; [reflexivity|]. split; [reflexivity|].
  intros ls s' H.
  pose proof (merger_done_forever_run _ _ _ _ H eq_refl) as (_ & _ & L & _).
  cbn [length z_q] in L.
  split; [|reflexivity].
  unfold step_mut6, step_gen, guard, room. cbn [c_qcap cfg_noll].
  assert (Q : (length (z_q s') <? 10) = false) by (apply Nat.ltb_ge; lia).
  rewrite Q. rewrite andb_false_r. reflexivity.
Qed.

(* the same two schedules on the current code: the caller's stop case is enabled *)
Example sched_mut6_current_ok :
  (exists s, run cfg_noll (init cfg_noll) sched_notify_after_close = Some s /\
             exists s', step cfg_noll s (LNStopWaitQ 0) = Some s' /\ waitpong s' = 0 /\ z_nerr s' = 1) /\
  (exists s, run cfg_noll (init cfg_noll) sched_notify_queue_full = Some s /\
             exists s', step cfg_noll s (LNStopSend false) = Some s' /\ z_nasy s' = 0 /\ z_nerr s' = 1).
Proof.
  split.
  - destruct (run cfg_noll (init cfg_noll) sched_notify_after_close) as [s|] eqn:E; [|vm_compute in E; discriminate].
    exists s. split; auto. vm_compute in E. injection E as <-.
    eexists. split; [vm_compute; reflexivity|]. split; reflexivity.
  - destruct (run cfg_noll (init cfg_noll) sched_notify_queue_full) as [s|] eqn:E; [|vm_compute in E; discriminate].
    exists s. split; auto. vm_compute in E. injection E as <-.
    eexists. split; [vm_compute; reflexivity|]. split; reflexivity.
Qed.

(* Mut7 = the code before the repair of the persistence stall (683d401): the merger goes to
   sleep although its last hand-over was skipped (persister busy) and the persister has
   finished since.  The persister pings only a merger that is asleep already
   (waitDirtyIncomingCh != nil): between the skipped hand-over and the sleep the test
   fails, the persister waits, the merger goes to sleep: unpersisted data sits in
   stackDirtyMid, nothing is enabled. *)
Definition sched_persist_stall : list step_label :=
  [LMReply; LMCheck; LPTop;
   LWCall; LWCloseInc; LMSelInc; LMDrain; LMIngest; LMMergeOk; LMHandover; LPTop; LPChk;
   LMReply; LMCheck;
   LWCall; LWCloseInc; LMSelInc; LMDrain; LMIngest; LMMergeOk; LMHandover;
   LPUpdOk; LPPublish; LPCloseOut; LPTop; LMReply; LMCheck].

Theorem persist_stall_mut7_refuted :
  exists s, reachable_gen Mut7 cfg_plain s /\ z_closed s = false /\ z_mid s = true /\
            z_base s = false /\ z_mp s = MSelect /\ z_armed s = true /\ z_pp s = PWait /\
            z_q s = [] /\ stuck Mut7 cfg_plain s.
Proof.
  destruct (run_gen Mut7 cfg_plain (init cfg_plain) sched_persist_stall) as [s|] eqn:E; [|vm_compute in E; discriminate].
  exists s. split; [exists sched_persist_stall; exact E|].
  vm_compute in E. injection E as <-.
  repeat split; try reflexivity. stuck_tac.
Qed.

(* the same schedule on the current code: the merger does not sleep, it retries the hand-over *)
Example sched_mut7_current_ok :
  exists s, run cfg_plain (init cfg_plain) sched_persist_stall = Some s /\
            z_mp s = MDrain /\ step cfg_plain s LMDrain <> None.
Proof.
  destruct (run cfg_plain (init cfg_plain) sched_persist_stall) as [s|] eqn:E; [|vm_compute in E; discriminate].
  exists s. split; auto. vm_compute in E. injection E as <-. split; [reflexivity|vm_compute; discriminate].
Qed.

(* candidate finding (error path): after a FAILED merge (collection_merger.go 142-144,
   `continue OUTER`) the hand-over is skipped; if the persister is already waiting, the
   merger goes to sleep with the unmerged stackDirtyMid unpersisted and nothing enabled *)
Definition sched_stall_after_merge_failure : list step_label :=
  [LMReply; LMCheck; LPTop; LWCall; LWCloseInc; LMSelInc; LMDrain; LMIngest; LMMergeFail;
   LMReply; LMCheck].

Example persist_stall_after_merge_failure :
  exists s, reachable_gen MutNone cfg_plain s /\ z_closed s = false /\ z_mid s = true /\
            z_base s = false /\ z_mp s = MSelect /\ z_pp s = PWait /\ stuck MutNone cfg_plain s.
Proof.
  destruct (run_gen MutNone cfg_plain (init cfg_plain) sched_stall_after_merge_failure) as [s|] eqn:E; [|vm_compute in E; discriminate].
  exists s. split; [exists sched_stall_after_merge_failure; exact E|].
  vm_compute in E. injection E as <-.
  repeat split; try reflexivity. stuck_tac.
Qed.

(* run_schedule is executable: the existing sync family's labels *)
Example run_schedule_example :
  run_schedule cfg_noll
    ([LMReply; LMCheck] ++ sched_arrive ++ [LWCloseInc] ++ sched_arrive ++ [LMSelInc; LMDrain]
     ++ sched_ingest ++ [LWRecheck] ++ sched_cycleend_noll ++ sched_notifysync)
  = Some {| o_top := 1; o_blocked := 0; o_ok := 2; o_closedret := 0; o_syncret := 0; o_notiferr := 0;
            o_closed := false |}.
Proof. vm_compute. reflexivity. Qed.

Print Assumptions reachable_inv.
Print Assumptions reachable_nf_inv.
Print Assumptions bounded_top2.
Print Assumptions no_lost_wakeup.
Print Assumptions no_block_under_lock.
Print Assumptions after_close_execute_batch.
Print Assumptions close_releases_all.
Print Assumptions notify_after_close_returns.
Print Assumptions no_block_under_lock_mut1_refuted.
Print Assumptions deadlock_free_mut1_refuted.
Print Assumptions bounded_top_mut2_refuted.
Print Assumptions deadlock_free_mut3_refuted.
Print Assumptions no_lost_wakeup_mut4_refuted.
Print Assumptions exit_answers_all_mut5_refuted.
Print Assumptions exit_answers_all.
Print Assumptions close_releases_all_mut6_refuted.
Print Assumptions async_notify_after_close_blocks_mut6_refuted.
Print Assumptions persist_stall_mut7_refuted.
