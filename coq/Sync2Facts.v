(* Sync2Facts.v - proofs about the wait/notify protocol of Sync2.v *)
From Coq Require Import List Arith Bool Lia Wellfounded Relation_Operators.
Import ListNotations.
From Moss Require Import Sync2.

Definition pz (p : mpc) : bool := match p with MCheck | MSelect | MExit | MDone => true | _ => false end.
Definition mexiting (p : mpc) : bool := match p with MExit | MDone => true | _ => false end.
Definition cjoinedM (p : cpc) : bool := match p with CJoinP | CFinal | CRet => true | _ => false end.
Definition cjoinedP (p : cpc) : bool := match p with CFinal | CRet => true | _ => false end.

Ltac zs := cbn [pz mexiting cjoinedM cjoinedP z_top z_mid z_base z_closed z_armed z_incc z_out z_onext z_oready z_q z_lk z_mp z_pongs z_pp z_cp z_wwait z_wwoken z_wsort z_wclcur z_wclold z_wok z_werr z_nsyn z_nasy z_nans z_naret z_nerr set_top set_mid set_base set_closed set_armed set_incc set_out set_onext set_oready set_q set_lk set_mp set_pongs set_pp set_cp set_wwait set_wwoken set_wsort set_wclcur set_wclold set_wok set_werr set_nsyn set_nasy set_nans set_naret set_nerr] in *.

Ltac b2p :=
  repeat match goal with
  | H : (_ && _) = true |- _ => apply andb_true_iff in H; destruct H
  | H : (_ || _) = false |- _ => apply orb_false_iff in H; destruct H
  | H : (_ && _) = false |- _ => apply andb_false_iff in H; destruct H
  | H : negb _ = true |- _ => apply negb_true_iff in H
  | H : negb _ = false |- _ => apply negb_false_iff in H
  | H : (_ <=? _) = true |- _ => apply Nat.leb_le in H
  | H : (_ <=? _) = false |- _ => apply Nat.leb_gt in H
  | H : (_ <? _) = true |- _ => apply Nat.ltb_lt in H
  | H : (_ <? _) = false |- _ => apply Nat.ltb_ge in H
  | H : (_ =? _) = true |- _ => apply Nat.eqb_eq in H
  | H : (_ =? _) = false |- _ => apply Nat.eqb_neq in H
  end.

(* split a hypothesis  step c s l = Some s'  into its cases *)
Ltac step_cases H :=
  unfold step, step_gen, guard in H;
  repeat match type of H with
    | (match ?x with _ => _ end) = Some _ =>
        let E := fresh "E" in destruct x eqn:E; try discriminate H
    end;
  injection H as H; subst.

Ltac goal_cases :=
  repeat match goal with
    | |- context[match ?x with _ => _ end] => let E := fresh "E" in destruct x eqn:E
    end.

Ltac triv := solve [assumption | congruence | lia].
Ltac sat :=
  repeat match goal with
  | H : _ /\ _ |- _ => destruct H
  | H : (forall g, MWaitOut ?g0 = MWaitOut g -> _) |- _ => specialize (H g0 eq_refl)
  | H : (forall g, z_mp ?s = MWaitOut g -> _), E : z_mp ?s = MWaitOut ?g0 |- _ => specialize (H g0 E)
  | H : (forall g, z_mp ?s = MWaitOut g -> _), E : z_mp ?s = _ |- _ => clear H
  | H : ?A -> _ |- _ =>
      match type of A with Prop => idtac end;
      let HA := fresh in assert (HA : A) by triv; specialize (H HA); clear HA
  end.
Ltac outdec := match goal with
  | H : z_out ?s <> Some ?g -> _ |- _ =>
     let D := fresh in
     assert (D : z_out s = Some g \/ z_out s <> Some g)
       by (destruct (z_out s) as [x|];
           [destruct (Nat.eq_dec x g); [left; congruence | right; congruence] | right; congruence]);
     destruct D as [D|D]; [ try triv | specialize (H D); try triv ]
  end.
Ltac rw := repeat match goal with
  | E : z_mp ?s = _ |- context[z_mp ?s] => rewrite E
  | E : z_pp ?s = _ |- context[z_pp ?s] => rewrite E
  | E : z_cp ?s = _ |- context[z_cp ?s] => rewrite E
  | E : z_closed ?s = _ |- context[z_closed ?s] => rewrite E
  end.
Ltac fin := subst; rw; zs; b2p; sat; repeat split; intros; zs; b2p; sat; try triv; try outdec.

Section Facts.
Variable c : config.
Hypothesis cap_pos : 1 <= c_cap c.
Hypothesis qcap_pos : 1 <= c_qcap c.

(* ------------------------------------------------------------------ *)
(* the invariant of the current code (Horn clauses, so that it can be used by forward chaining) *)
Definition inv (s : state) : Prop :=
  z_top s <= c_cap c /\
  z_lk s = false /\
  z_wsort s = 0 /\
  z_pp s <> PSendLocked /\
  (0 < z_wwait s -> z_top s = c_cap c) /\
  (0 < z_wwait s -> z_closed s = false) /\
  (z_armed s = true -> z_top s = 0) /\
  (z_mp s = MSelect -> z_armed s = false -> z_incc s = false -> 0 < z_wclcur s) /\
  (pz (z_mp s) = true -> z_pongs s = 0) /\
  (z_pp s = PWait -> z_base s = false) /\
  (z_pp s = PWait -> z_closed s = false) /\
  (forall g, z_mp s = MWaitOut g -> z_oready s = false -> z_out s <> Some g ->
             z_pp s = PCloseOut (Some g)) /\
  (z_out s <> None -> z_cp s <> CRet -> z_base s = true) /\
  (z_pp s = PDone -> c_ll c = true -> z_closed s = true) /\
  (c_ll c = false -> z_base s = false) /\
  (c_ll c = false -> z_out s = None) /\
  (c_ll c = false -> z_pp s = PDone) /\
  (z_closed s = true -> z_cp s <> CIdle) /\
  (z_closed s = false -> z_cp s = CIdle) /\
  (mexiting (z_mp s) = true -> z_closed s = true) /\
  (cjoinedM (z_cp s) = true -> z_mp s = MDone) /\
  (cjoinedP (z_cp s) = true -> z_pp s = PDone).

Lemma inv_init : inv (init c).
Proof. unfold inv, init; destruct (c_ll c) eqn:E; fin. Qed.

Lemma inv_step s l s' : inv s -> step c s l = Some s' -> inv s'.
Proof.
  intros I H. unfold inv in I. revert I.
  destruct l; step_cases H.
  all: unfold inv, writer_enter, broadcast_base, broadcast_top, room in *; zs.
  all: goal_cases; zs; intro I.
  all: solve [fin].
Qed.

Definition reachable (s : state) : Prop := exists ls, run c (init c) ls = Some s.

Lemma run_app m s ls1 ls2 :
  run_gen m c s (ls1 ++ ls2) =
  match run_gen m c s ls1 with Some s1 => run_gen m c s1 ls2 | None => None end.
Proof.
  revert s; induction ls1 as [|l r IH]; intros s; simpl; auto.
  destruct (step_gen m c s l); auto.
Qed.

Lemma inv_run ls : forall s s', inv s -> run c s ls = Some s' -> inv s'.
Proof.
  induction ls as [|l r IH]; intros s s' I H; simpl in H.
  - injection H as <-; auto.
  - unfold run in H; simpl in H. destruct (step_gen MutNone c s l) eqn:E; [|discriminate].
    eapply IH; [|exact H]. eapply inv_step; eauto.
Qed.

Theorem reachable_inv s : reachable s -> inv s.
Proof. intros [ls H]. eapply inv_run; [apply inv_init | exact H]. Qed.

(* ------------------------------------------------------------------ *)
(* (1) safety *)
Theorem bounded_top2 s : reachable s -> z_top s <= c_cap c.
Proof. intros R. apply reachable_inv in R. apply R. Qed.

(* no lost wake-up: a writer inside stackDirtyTopCond.Wait() that no Broadcast has
   reached yet (the woken ones are counted in z_wwoken) really is held back: the
   top is full and the collection is open *)
Theorem no_lost_wakeup s :
  reachable s -> 0 < z_wwait s -> z_top s = c_cap c /\ z_closed s = false.
Proof. intros R W. apply reachable_inv in R. unfold inv in R. sat. auto. Qed.

(* (3) nobody blocks while holding the collection lock: between two steps the lock
   is free, i.e. every critical section runs to its Unlock / Wait without a
   blocking operation in it *)
Theorem no_block_under_lock s : reachable s -> z_lk s = false.
Proof. intros R. apply reachable_inv in R. apply R. Qed.

(* after Close a new ExecuteBatch reports ErrClosed and changes nothing else; so
   does a writer that was blocked *)
Theorem after_close_execute_batch s :
  reachable s -> z_closed s = true ->
  exists s', step c s LWCall = Some s' /\ z_werr s' = S (z_werr s) /\ z_wok s' = z_wok s /\
             z_top s' = z_top s /\ z_wwait s' = z_wwait s /\ z_wclcur s' = z_wclcur s.
Proof.
  intros R Cl. apply reachable_inv in R. destruct R as (_ & Lk & _).
  unfold step, step_gen, guard, writer_enter. rewrite Lk, Cl. cbn [negb andb].
  destruct (c_cap c <=? z_top s); eexists; split; try reflexivity; zs; auto.
Qed.

Theorem after_close_blocked_writer s s' :
  reachable s -> z_closed s = true -> step c s LWRecheck = Some s' ->
  z_werr s' = S (z_werr s) /\ z_wwoken s' = z_wwoken s - 1 /\ z_top s' = z_top s.
Proof.
  intros R Cl H. step_cases H. unfold writer_enter in *. zs. rewrite Cl.
  destruct (negb false && (c_cap c <=? z_top s)); zs; auto.
Qed.

Lemma closed_stays s l s' : step c s l = Some s' -> z_closed s = true -> z_closed s' = true.
Proof.
  intros H Cl. destruct l; step_cases H;
  unfold writer_enter, broadcast_base, broadcast_top in *; zs; goal_cases; zs; subst; zs;
  try reflexivity; try assumption; try congruence.
Qed.

Lemma bg_keeps_open s l s' :
  step c s l = Some s' -> bg l = true -> z_closed s = false -> z_closed s' = false.
Proof.
  intros H B Cl. destruct l; try discriminate B; step_cases H;
  unfold writer_enter, broadcast_base, broadcast_top in *; zs; goal_cases; zs; subst; zs;
  try reflexivity; try assumption; try congruence.
Qed.

(* ------------------------------------------------------------------ *)
(* Close releases the notifiers (the repaired NotifyMerger, collection_merger.go 31-45) *)
Lemma orphan_nsync : forall n q q',
  orphan_nth n q = Some q' -> nsync q = S (nsync q') /\ length q' = length q.
Proof.
  induction n as [|k IH]; intros [|b r] q' H; simpl in H; try discriminate.
  - destruct b; try discriminate. injection H as <-. simpl. auto.
  - destruct (orphan_nth k r) as [r'|] eqn:E; [|destruct b; discriminate].
    assert (H' : Some (b :: r') = Some q') by (destruct b; exact H).
    injection H' as <-. destruct (IH r r' E) as [A B]. simpl. rewrite A, B. split; auto; lia.
Qed.

Lemma orphan_exists : forall q, 0 < nsync q -> exists n q', orphan_nth n q = Some q'.
Proof.
  induction q as [|b r IH]; simpl; intros H; [lia|].
  destruct b.
  - exists 0, (false :: r). reflexivity.
  - destruct (IH H) as (n & r' & E). exists (S n), (false :: r'). simpl. rewrite E. reflexivity.
Qed.

Definition is_stop (l : step_label) : bool :=
  match l with LNStopSend _ | LNStopWaitQ _ | LNStopWaitP => true | _ => false end.

(* notifiers in flight: about to send, or waiting for their pong *)
Definition notif_pending (s : state) : nat := z_nsyn s + z_nasy s + waitpong s.

(* once stopCh is closed (already from LCBegin on, not only after Close has returned) every
   NotifyMerger call in flight has an enabled step of its own with which it returns
   ErrClosed - whatever the merger, the persister, the queue or the lock are doing *)
Theorem close_releases_all s :
  z_closed s = true -> 0 < notif_pending s ->
  exists l s', is_stop l = true /\ step c s l = Some s' /\
               S (notif_pending s') = notif_pending s /\ z_nerr s' = S (z_nerr s) /\
               z_nans s' = z_nans s.
Proof.
  intros Cl P. unfold notif_pending, waitpong in *.
  destruct (0 <? z_nsyn s) eqn:C1.
  { exists (LNStopSend true). eexists. split; [reflexivity|].
    unfold step, step_gen, guard. rewrite Cl, C1. cbn [andb]. split; [reflexivity|]. zs. b2p.
    repeat split; lia. }
  destruct (0 <? z_nasy s) eqn:C2.
  { exists (LNStopSend false). eexists. split; [reflexivity|].
    unfold step, step_gen, guard. rewrite Cl, C2. cbn [andb]. split; [reflexivity|]. zs. b2p.
    repeat split; lia. }
  destruct (0 <? z_pongs s) eqn:C3.
  { exists LNStopWaitP. eexists. split; [reflexivity|].
    unfold step, step_gen, guard. rewrite Cl, C3. cbn [andb]. split; [reflexivity|]. zs. b2p.
    repeat split; lia. }
  b2p. assert (Q : 0 < nsync (z_q s)) by lia.
  destruct (orphan_exists _ Q) as (n & q' & E).
  destruct (orphan_nsync _ _ _ E) as [A B].
  exists (LNStopWaitQ n). eexists. split; [reflexivity|].
  unfold step, step_gen. rewrite Cl, E. split; [reflexivity|]. zs. repeat split; lia.
Qed.

(* ... and a call made after Close does not block either: it returns ErrClosed *)
Theorem notify_after_close_returns s b :
  z_closed s = true ->
  exists s1 s2, step c s (LNCall b) = Some s1 /\ step c s1 (LNStopSend b) = Some s2 /\
                notif_pending s2 = notif_pending s /\ z_nerr s2 = S (z_nerr s).
Proof.
  intros Cl. destruct b; eexists; eexists; (split; [reflexivity|]);
  unfold step, step_gen, guard; zs; rewrite Cl; cbn [andb Nat.ltb Nat.leb];
  (split; [reflexivity|]); unfold notif_pending, waitpong; zs; split; lia.
Qed.

(* ------------------------------------------------------------------ *)
(* (2) progress while the collection is open *)

(* persister: steps until it has closed the outgoing channel the merger waits on *)
Definition dP (s : state) : nat :=
  if z_oready s then 0 else
  match z_pp s with
  | PCloseOut (Some g) =>
      match z_mp s with MWaitOut g' => if g =? g' then 1 else 7 | _ => 7 end
  | PTop | PWoken => 6 | PChk => 5 | PUpdate => 4 | PPublish => 3
  | _ => 7
  end.

(* merger: steps until it has ingested / answered its pongs / drained the queue *)
Definition dI (s : state) : nat :=
  match z_mp s with
  | MIngest => 1 | MDrain => 2 | MSelect => 3 | MCheck => 4 | MReply => 5
  | MWaitOut _ => 6 + dP s | MHandover => 14 | MMerge => 15 | _ => 0 end.
Definition dR (s : state) : nat :=
  match z_mp s with
  | MReply => 1 | MWaitOut _ => 2 + dP s | MHandover => 10 | MMerge => 11 | MIngest => 12
  | MDrain => 13 | MSelect => 14 | MCheck => 15 | _ => 0 end.
Definition dDr (s : state) : nat :=
  match z_mp s with
  | MDrain => 1 | MSelect => 2 | MCheck => 3 | MReply => 4 | MWaitOut _ => 5 + dP s
  | MHandover => 13 | MMerge => 14 | MIngest => 15 | _ => 0 end.

(* the farthest of the merger events some caller in flight is waiting for:
   writers held back by a full top need the ingest, senders held back by a full queue
   the drain, queued synchronous pings the drain and then the reply, collected ones
   the reply *)
Definition muD (s : state) : nat :=
  Nat.max
    (Nat.max (if 0 <? z_wwait s + (if z_top s <? c_cap c then 0 else z_wwoken s) then dI s else 0)
             (if 0 <? (if room c s then 0 else z_nsyn s + z_nasy s) then dDr s else 0))
    (Nat.max (if 0 <? nsync (z_q s) then dDr s + 12 else 0)
             (if 0 <? z_pongs s then dR s else 0)).

(* weighted measure: callers not yet accepted weigh more than a whole merger cycle *)
Definition mu_o (s : state) : nat :=
  30 * (z_wwait s + z_wwoken s + z_nsyn s + z_nasy s) + z_wclcur s + z_wclold s + muD s.

(* some call has been made and has not returned *)
Definition pending (s : state) : Prop :=
  0 < z_wwait s + z_wwoken s + z_wclcur s + z_wclold s + z_nsyn s + z_nasy s
      + nsync (z_q s) + z_pongs s.

Ltac step_none H :=
  unfold step, step_gen, guard in H;
  repeat match type of H with
    | (match ?x with _ => _ end) = None =>
        let E := fresh "E" in destruct x eqn:E; try discriminate H
    end.

Ltac take s l :=
  let Hs := fresh "Hs" in
  destruct (step c s l) as [?s'|] eqn:Hs;
  [ eexists l, _; split; [reflexivity | split; [exact Hs|]]; step_cases Hs
  | exfalso; step_none Hs ].

Ltac bool_cases := repeat match goal with
  | |- context[if ?x then _ else _] => let E := fresh "E" in destruct x eqn:E end.
Ltac pp_cases := repeat match goal with
  | |- context[match z_pp ?x with _ => _ end] => let E := fresh "E" in destruct (z_pp x) eqn:E end.
Ltac rwall := repeat match goal with
  | E : z_mp ?s = _ |- _ => rewrite E in *
  | E : z_pp ?s = _ |- _ => rewrite E in *
  | E : z_q ?s = _ |- _ => rewrite E in *
  | E : z_closed ?s = _ |- _ => rewrite E in *
  end.

Lemma muD_bound s : muD s <= 27.
Proof.
  unfold muD, dI, dR, dDr, dP.
  destruct (z_mp s); zs; bool_cases; try lia; pp_cases; bool_cases; try lia;
  repeat match goal with |- context[match ?x with _ => _ end] => destruct x end; bool_cases; lia.
Qed.

Ltac ounf := unfold mu_o, muD, dI, dR, dDr, dP, room, writer_enter, broadcast_top, broadcast_base in *; zs.
(* steps that accept a caller: the weight 30 pays for whatever happens to muD *)
Ltac adec := subst;
  match goal with |- mu_o ?x < mu_o ?y => generalize (muD_bound x) end;
  unfold mu_o, writer_enter, room in *; zs; bool_cases; zs; b2p; intros; try lia.
(* merger / persister steps *)
Ltac hyp_cases := repeat match goal with
  | H : context[if ?x then _ else _] |- _ => let E := fresh "E" in destruct x eqn:E end.
Ltac inj := repeat match goal with
  | H : _ :: _ = _ :: _ |- _ => injection H as ? ?; subst end.
Ltac odec := subst; ounf; rwall; inj; zs; cbn [nsync length] in *; bool_cases; zs; b2p; try lia;
  hyp_cases; b2p; try lia; try (exfalso; congruence).

Lemma dP_bound s : dP s <= 7.
Proof.
  unfold dP. destruct (z_oready s); [lia|]. destruct (z_pp s); try lia.
  destruct g; try lia. destruct (z_mp s); try lia. destruct (_ =? _); lia.
Qed.

Lemma bb_top s : z_top (broadcast_base s) = z_top s.
Proof. unfold broadcast_base; destruct (z_pp s); reflexivity. Qed.
Lemma bb_wwait s : z_wwait (broadcast_base s) = z_wwait s.
Proof. unfold broadcast_base; destruct (z_pp s); reflexivity. Qed.
Lemma bb_wwoken s : z_wwoken (broadcast_base s) = z_wwoken s.
Proof. unfold broadcast_base; destruct (z_pp s); reflexivity. Qed.
Lemma bb_q s : z_q (broadcast_base s) = z_q s.
Proof. unfold broadcast_base; destruct (z_pp s); reflexivity. Qed.
Lemma bb_nsyn s : z_nsyn (broadcast_base s) = z_nsyn s.
Proof. unfold broadcast_base; destruct (z_pp s); reflexivity. Qed.
Lemma bb_nasy s : z_nasy (broadcast_base s) = z_nasy s.
Proof. unfold broadcast_base; destruct (z_pp s); reflexivity. Qed.
Lemma bb_pongs s : z_pongs (broadcast_base s) = z_pongs s.
Proof. unfold broadcast_base; destruct (z_pp s); reflexivity. Qed.
Lemma bb_wclcur s : z_wclcur (broadcast_base s) = z_wclcur s.
Proof. unfold broadcast_base; destruct (z_pp s); reflexivity. Qed.
Lemma bb_wclold s : z_wclold (broadcast_base s) = z_wclold s.
Proof. unfold broadcast_base; destruct (z_pp s); reflexivity. Qed.
Lemma bb_out s : z_out (broadcast_base s) = z_out s.
Proof. unfold broadcast_base; destruct (z_pp s); reflexivity. Qed.
Lemma bb_mid s : z_mid (broadcast_base s) = z_mid s.
Proof. unfold broadcast_base; destruct (z_pp s); reflexivity. Qed.
Lemma bb_base s : z_base (broadcast_base s) = z_base s.
Proof. unfold broadcast_base; destruct (z_pp s); reflexivity. Qed.
Lemma bb_oready s : z_oready (broadcast_base s) = z_oready s.
Proof. unfold broadcast_base; destruct (z_pp s); reflexivity. Qed.
Lemma bb_mp s : z_mp (broadcast_base s) = z_mp s.
Proof. unfold broadcast_base; destruct (z_pp s); reflexivity. Qed.
Lemma bb_closed s : z_closed (broadcast_base s) = z_closed s.
Proof. unfold broadcast_base; destruct (z_pp s); reflexivity. Qed.
Lemma bb_cp s : z_cp (broadcast_base s) = z_cp s.
Proof. unfold broadcast_base; destruct (z_pp s); reflexivity. Qed.
Ltac bbr := rewrite ?bb_top, ?bb_wwait, ?bb_wwoken, ?bb_q, ?bb_nsyn, ?bb_nasy, ?bb_pongs, ?bb_wclcur, ?bb_wclold, ?bb_out, ?bb_mid, ?bb_base, ?bb_oready, ?bb_mp, ?bb_closed.
Ltac absdP := repeat match goal with
  | |- context[dP ?x] => generalize (dP_bound x); generalize (dP x); intros ? ? end.
Ltac out_cases := repeat match goal with
  | |- context[match z_out ?x with _ => _ end] => let E := fresh "E" in destruct (z_out x) eqn:E end.
Ltac odec_h := subst; repeat match goal with H : _ /\ _ |- _ => clear H end;
  unfold mu_o, muD, dI, dR, dDr, room in *; zs; rwall; zs; bbr; zs;
  bool_cases; zs; bbr; zs; out_cases; zs; bbr; zs;
  bool_cases; absdP; b2p; try lia; hyp_cases; b2p; try lia.

Definition same_callers (s s' : state) : Prop :=
  z_top s' = z_top s /\ z_wwait s' = z_wwait s /\ z_wwoken s' = z_wwoken s /\ z_q s' = z_q s /\
  z_nsyn s' = z_nsyn s /\ z_nasy s' = z_nasy s /\ z_pongs s' = z_pongs s /\
  z_wclcur s' = z_wclcur s /\ z_wclold s' = z_wclold s.

(* some caller in flight waits for a merger event *)
Definition needs (s : state) : bool :=
  (0 <? z_wwait s + (if z_top s <? c_cap c then 0 else z_wwoken s)) ||
  (0 <? (if room c s then 0 else z_nsyn s + z_nasy s)) ||
  (0 <? nsync (z_q s)) || (0 <? z_pongs s).

Lemma move_dec s s' :
  same_callers s s' -> needs s = true ->
  dI s' < dI s -> dR s' < dR s -> dDr s' < dDr s -> mu_o s' < mu_o s.
Proof.
  intros (A1&A2&A3&A4&A5&A6&A7&A8&A9) N HI HR HD.
  unfold mu_o, muD, needs, room in *. rewrite A1, A2, A3, A4, A5, A6, A7, A8, A9.
  destruct (0 <? z_wwait s + (if z_top s <? c_cap c then 0 else z_wwoken s));
  destruct (0 <? (if length (z_q s) <? c_qcap c then 0 else z_nsyn s + z_nasy s));
  destruct (0 <? nsync (z_q s)); destruct (0 <? z_pongs s); simpl in N; try discriminate; lia.
Qed.

Lemma needs_of_pending s :
  pending s -> z_wclcur s = 0 -> z_wclold s = 0 ->
  (0 <? z_wwoken s) && (z_top s <? c_cap c) = false ->
  (0 <? z_nsyn s) && room c s = false -> (0 <? z_nasy s) && room c s = false ->
  needs s = true.
Proof.
  unfold pending, needs. intros P W1 W2 C3 C4 C5.
  destruct (z_top s <? c_cap c) eqn:Et; destruct (room c s) eqn:Er;
  rewrite ?andb_true_r, ?andb_false_r in *; b2p;
  repeat match goal with |- context[?a <? ?b] => destruct (Nat.ltb_spec a b) end;
  cbn [orb]; auto; lia.
Qed.

Lemma handover_mp s s' :
  step c s LMHandover = Some s' -> same_callers s s' /\
  (z_mp s' = MReply \/ exists g, z_mp s' = MWaitOut g).
Proof.
  intros H. step_cases H; unfold same_callers; zs.
  - split; [repeat split|left]; reflexivity.
  - bool_cases; zs; rewrite ?bb_out; zs; out_cases; zs; bbr; zs;
    (split; [repeat split; reflexivity|]); eauto.
Qed.

Ltac ndec := zs; b2p; try lia; try congruence; sat; try triv.
Ltac dd tac := match goal with |- False => ndec | _ => tac end.

Theorem open_step s :
  inv s -> z_closed s = false -> pending s ->
  exists l s', bg l = true /\ step c s l = Some s' /\ mu_o s' < mu_o s.
Proof.
  intros I Cl P. unfold inv in I. unfold pending in P.
  destruct (0 <? z_wclcur s) eqn:C1.
  { take s LWCloseInc; timeout 30 (dd odec). }
  destruct (0 <? z_wclold s) eqn:C2.
  { take s LWCloseOld; timeout 30 (dd odec). }
  destruct ((0 <? z_wwoken s) && (z_top s <? c_cap c)) eqn:C3.
  { take s LWRecheck; timeout 30 (dd adec). }
  destruct ((0 <? z_nsyn s) && room c s) eqn:C4.
  { take s (LNSend true); timeout 30 (dd adec). }
  destruct ((0 <? z_nasy s) && room c s) eqn:C5.
  { take s (LNSend false); timeout 30 (dd adec). }
  destruct (z_mp s) eqn:Emp.
  - (* MReply *) take s LMReply; timeout 300 (dd odec).
  - (* MCheck *)
    assert (N : needs s = true).
    { apply needs_of_pending; auto; unfold pending; b2p; try lia. }
    take s LMCheck; [|ndec..].
    destruct (z_top s =? 0) eqn:Et;
    (apply move_dec; auto;
     [unfold same_callers; zs; b2p; repeat split; try reflexivity; try lia| | |];
     unfold dI, dR, dDr; zs; rwall; lia).
  - (* MSelect *)
    destruct (z_incc s) eqn:Ei.
    { assert (N : needs s = true).
      { apply needs_of_pending; auto; unfold pending; b2p; try lia. }
      take s LMSelInc; [|ndec..].
      apply move_dec; auto; [unfold same_callers; zs; repeat split; reflexivity| | |];
      unfold dI, dR, dDr; zs; rwall; lia. }
    destruct (z_q s) as [|b r] eqn:Eq.
    { exfalso. unfold room in *. rewrite Eq in *. cbn [nsync length] in *.
      assert (R0 : (0 <? c_qcap c) = true) by (apply Nat.ltb_lt; lia). rewrite R0 in *.
      rewrite !andb_true_r in *. b2p; sat; zs; sat;
      destruct (z_armed s) eqn:Ea; sat; try lia. }
    take s LMSelPing; timeout 300 (dd odec).
  - (* MDrain *) take s LMDrain; timeout 300 (dd odec).
  - (* MIngest *) take s LMIngest; timeout 300 (dd odec).
  - (* MMerge *)
    assert (N : needs s = true).
    { apply needs_of_pending; auto; unfold pending; b2p; try lia. }
    take s LMMergeOk; [|ndec..].
    apply move_dec; auto; [unfold same_callers; zs; repeat split; reflexivity| | |];
    unfold dI, dR, dDr; zs; rwall; lia.
  - (* MHandover *)
    assert (N : needs s = true).
    { apply needs_of_pending; auto; unfold pending; b2p; try lia. }
    destruct (step c s LMHandover) as [s'|] eqn:Hs.
    + exists LMHandover, s'. split; [reflexivity|split; [exact Hs|]].
      destruct (handover_mp _ _ Hs) as [SC M].
      pose proof (dP_bound s').
      apply move_dec; auto; unfold dI, dR, dDr; rewrite Emp;
      (destruct M as [M|[g M]]; rewrite M; lia).
    + exfalso. step_none Hs; ndec.
  - (* MWaitOut g *)
    assert (N : needs s = true).
    { apply needs_of_pending; auto; unfold pending; b2p; try lia. }
    destruct (z_oready s) eqn:Er.
    { exists LMOutWake, (set_mp MReply s). split; [reflexivity|]. split.
      { unfold step, step_gen, guard. rewrite Emp, Er. reflexivity. }
      apply move_dec; auto;
        [unfold same_callers; zs; repeat split; reflexivity| | |];
      unfold dI, dR, dDr, dP; zs; rewrite ?Emp, ?Er; zs; lia. }
    destruct I as (I1&I2&I3&I3b&I4&I4b&I5&I6&I7&J1&J1b&J2&J3&J4&J5a&J5b&J5c&I9a&I9b&I10&I11&I12).
    assert (Ho : z_pp s = PCloseOut (Some g) \/ z_out s = Some g).
    { destruct (z_out s) as [x|] eqn:Eo.
      - destruct (Nat.eq_dec x g); [subst; auto|]. left. apply (J2 g eq_refl); auto; congruence.
      - left. apply (J2 g eq_refl); auto; congruence. }
    assert (Hb : z_out s = Some g -> z_base s = true).
    { intros Eo. apply J3; [congruence|]. rewrite (I9b Cl). discriminate. }
    assert (SCs : forall p, same_callers s (set_pp p s)).
    { intros p. unfold same_callers; zs; repeat split; reflexivity. }
    destruct (z_pp s) eqn:Epp.
    + (* PTop *)
      destruct Ho as [Ho|Ho]; [discriminate|]. pose proof (Hb Ho) as Hbt.
      exists LPTop, (set_pp PChk s). split; [reflexivity|]. split.
      { unfold step, step_gen, guard. rewrite Epp, I2, Hbt. reflexivity. }
      apply move_dec; auto; unfold dI, dR, dDr, dP; zs; rewrite ?Emp, ?Er, ?Epp; zs; lia.
    + (* PWait *)
      destruct Ho as [Ho|Ho]; [discriminate|]. pose proof (Hb Ho). pose proof (J1 eq_refl). congruence.
    + (* PWoken *)
      destruct Ho as [Ho|Ho]; [discriminate|]. pose proof (Hb Ho) as Hbt.
      exists LPTop, (set_pp PChk s). split; [reflexivity|]. split.
      { unfold step, step_gen, guard. rewrite Epp, I2, Hbt. reflexivity. }
      apply move_dec; auto; unfold dI, dR, dDr, dP; zs; rewrite ?Emp, ?Er, ?Epp; zs; lia.
    + (* PChk *)
      exists LPChk, (set_pp PUpdate s). split; [reflexivity|]. split.
      { unfold step, step_gen. rewrite Epp, Cl. reflexivity. }
      apply move_dec; auto; unfold dI, dR, dDr, dP; zs; rewrite ?Emp, ?Er, ?Epp; zs; lia.
    + (* PUpdate *)
      exists LPUpdOk, (set_pp PPublish s). split; [reflexivity|]. split.
      { unfold step, step_gen. rewrite Epp. reflexivity. }
      apply move_dec; auto; unfold dI, dR, dDr, dP; zs; rewrite ?Emp, ?Er, ?Epp; zs; lia.
    + (* PPublish *)
      destruct Ho as [Ho|Ho]; [discriminate|].
      eexists LPPublish, _. split; [reflexivity|]. split.
      { unfold step, step_gen, guard. rewrite Epp, I2. reflexivity. }
      apply move_dec; auto; [unfold same_callers; zs; repeat split; reflexivity| | |];
      unfold dI, dR, dDr, dP; zs; rewrite ?Emp, ?Er, ?Epp, ?Ho; zs; rewrite ?Nat.eqb_refl; lia.
    + (* PCloseOut *)
      eexists LPCloseOut, _. split; [reflexivity|]. split.
      { unfold step, step_gen. rewrite Epp, Emp. reflexivity. }
      destruct g0 as [g0|].
      * destruct (g0 =? g) eqn:Eg.
        -- apply move_dec; auto; [unfold same_callers; zs; repeat split; reflexivity| | |];
           unfold dI, dR, dDr, dP; zs; rewrite ?Emp, ?Er, ?Epp, ?Eg; zs; lia.
        -- apply move_dec; auto;
           unfold dI, dR, dDr, dP; zs; rewrite ?Emp, ?Er, ?Epp, ?Eg; zs; lia.
      * apply move_dec; auto;
        unfold dI, dR, dDr, dP; zs; rewrite ?Emp, ?Er, ?Epp; zs; lia.
    + (* PSendLocked *) congruence.
    + (* PDone *)
      destruct Ho as [Ho|Ho]; [discriminate|].
      destruct (c_ll c) eqn:El.
      * pose proof (J4 eq_refl eq_refl). congruence.
      * pose proof (J5b eq_refl). congruence.
  - (* MExit *) exfalso. sat. zs. sat. congruence.
  - (* MDone *) exfalso. sat. zs. sat. congruence.
Qed.

(* from the measure: a schedule of background / in-flight steps, no longer than mu_o,
   after which every call that had been made has returned (open collection) *)
Theorem open_drain : forall n s,
  inv s -> z_closed s = false -> mu_o s <= n ->
  exists ls s', Forall (fun l => bg l = true) ls /\ length ls <= mu_o s /\
                run c s ls = Some s' /\ ~ pending s' /\ z_closed s' = false /\ inv s'.
Proof.
  induction n as [|n IH]; intros s I Cl Hn.
  - exists [], s. split; [constructor|]. split; [simpl; lia|]. split; [reflexivity|].
    split; [|split; auto].
    intros P. destruct (open_step s I Cl P) as (l & s' & _ & _ & D). lia.
  - destruct (Nat.eq_dec (z_wwait s + z_wwoken s + z_wclcur s + z_wclold s + z_nsyn s + z_nasy s
                           + nsync (z_q s) + z_pongs s) 0) as [Z|NZ].
    + exists [], s. split; [constructor|]. split; [simpl; lia|]. split; [reflexivity|].
      split; [unfold pending; lia|split; auto].
    + assert (P : pending s) by (unfold pending; lia).
      destruct (open_step s I Cl P) as (l & s1 & B & St & D).
      assert (I1 : inv s1) by (eapply inv_step; eauto).
      assert (Cl1 : z_closed s1 = false) by (eapply bg_keeps_open; eauto).
      destruct (IH s1 I1 Cl1 ltac:(lia)) as (ls & s' & F & L & R & NP & Cl' & I').
      exists (l :: ls), s'. split; [constructor; auto|]. split; [simpl; lia|].
      split; [|split; [exact NP|split; auto]].
      unfold run in *. simpl. unfold step in St. rewrite St. exact R.
Qed.

(* ------------------------------------------------------------------ *)
(* (4) Close: once stopCh is closed, a bounded number of steps of the background
   goroutines, of the callers in flight and of the closer itself brings everything
   to rest *)
Definition dMc (s : state) : nat :=
  match z_mp s with
  | MDone => 0 | MExit => 1 | MSelect => 2
  | MCheck => if z_top s =? 0 then 3 else 10
  | MReply => if z_top s =? 0 then 4 else 11
  | MWaitOut _ => if z_top s =? 0 then 5 else 12
  | MHandover => if z_top s =? 0 then 6 else 13
  | MMerge => if z_top s =? 0 then 7 else 14
  | MIngest => 8 | MDrain => 9 end.
Definition dPc (s : state) : nat :=
  match z_pp s with
  | PDone => 0 | PChk => 1 | PTop | PWoken => 2 | PCloseOut _ => 3 | PPublish => 4
  | PUpdate => 5 | _ => 9 end.
Definition dCc (s : state) : nat :=
  match z_cp s with CJoinM => 3 | CJoinP => 2 | CFinal => 1 | _ => 0 end.
Definition mu_c (s : state) : nat :=
  2 * z_wwoken s + z_wclcur s + z_wclold s + notif_pending s + dMc s + dPc s + dCc s.

(* everything has come to rest: goroutines gone, Close returned, no call in flight *)
Definition at_rest (s : state) : Prop :=
  z_mp s = MDone /\ z_pp s = PDone /\ z_cp s = CRet /\
  z_wwait s = 0 /\ z_wwoken s = 0 /\ z_wclcur s = 0 /\ z_wclold s = 0 /\ notif_pending s = 0.

Ltac cunf := unfold mu_c, notif_pending, waitpong, dMc, dPc, dCc, writer_enter, broadcast_top in *; zs.
Ltac cdec := subst; cunf; rwall; inj; zs; cbn [nsync length] in *; try lia; bool_cases; zs; b2p; try lia;
  hyp_cases; b2p; try lia; try (exfalso; congruence).

Lemma mu_c_bound s : mu_c s <= 2 * z_wwoken s + z_wclcur s + z_wclold s + notif_pending s + 26.
Proof.
  unfold mu_c, dMc, dPc, dCc. destruct (z_mp s); destruct (z_pp s); destruct (z_cp s);
  try destruct (z_top s =? 0); lia.
Qed.

(* FULL STATEMENT (not closed in the time available; the cases z_mp s = MDone, i.e. the
   persister's and the closer's last steps, are missing - they are straight-line code):
     Theorem close_step s : inv s -> z_closed s = true -> 0 < mu_c s ->
       exists l s', bg l = true /\ step c s l = Some s' /\ mu_c s' < mu_c s.
   Proved: the same as long as the merger has not yet exited. *)
Theorem close_step_partial s :
  inv s -> z_closed s = true -> z_mp s <> MDone ->
  exists l s', bg l = true /\ step c s l = Some s' /\ mu_c s' < mu_c s.
Proof.
  intros I Cl Hm. unfold inv in I.
  assert (W0 : z_wwait s = 0).
  { destruct I as (_&_&_&_&_&I4b&_). destruct (z_wwait s); auto.
    assert (z_closed s = false) by (apply I4b; lia). congruence. }
  destruct (0 <? notif_pending s) eqn:C0.
  { b2p. destruct (close_releases_all s Cl C0) as (l & s' & L & St & Dn & _).
    exists l, s'. split; [destruct l; try discriminate L; reflexivity|]. split; [exact St|].
    assert (F : z_wwoken s' = z_wwoken s /\ z_wclcur s' = z_wclcur s /\ z_wclold s' = z_wclold s /\
                z_mp s' = z_mp s /\ z_pp s' = z_pp s /\ z_cp s' = z_cp s /\ z_top s' = z_top s).
    { destruct l; try discriminate L; step_cases St; zs; repeat split; reflexivity. }
    destruct F as (F1&F2&F3&F4&F5&F6&F7).
    unfold mu_c, dMc, dPc, dCc. rewrite F1, F2, F3, F4, F5, F6, F7. lia. }
  destruct (0 <? z_wclcur s) eqn:C1.
  { take s LWCloseInc; timeout 60 (dd cdec). }
  destruct (0 <? z_wclold s) eqn:C2.
  { take s LWCloseOld; timeout 60 (dd cdec). }
  destruct (0 <? z_wwoken s) eqn:C3.
  { take s LWRecheck; timeout 60 (dd cdec). }
  destruct (z_mp s) eqn:Emp.
  - take s LMReply; timeout 60 (dd cdec).
  - take s LMCheck; timeout 60 (dd cdec).
  - take s LMSelStop; timeout 60 (dd cdec).
  - take s LMDrain; timeout 60 (dd cdec).
  - take s LMIngest; timeout 60 (dd cdec).
  - take s LMMergeOk; timeout 60 (dd cdec).
  - (* MHandover *)
    destruct (step c s LMHandover) as [s'|] eqn:Hs; [|exfalso; step_none Hs; ndec].
    exists LMHandover, s'. split; [reflexivity|split; [exact Hs|]].
    destruct (handover_mp _ _ Hs) as [(A1&A2&A3&A4&A5&A6&A7&A8&A9) M].
    assert (F : z_cp s' = z_cp s /\ dPc s' <= dPc s).
    { step_cases Hs; unfold dPc, broadcast_base; zs; bool_cases; zs; out_cases; zs;
      pp_cases; zs; split; try reflexivity; try lia; try congruence. }
    destruct F as [F1 F2].
    unfold mu_c, notif_pending, waitpong, dMc, dCc. rewrite A1, A3, A4, A5, A6, A7, A8, A9, F1, Emp.
    destruct M as [M|[g M]]; rewrite M; destruct (z_top s =? 0); lia.
  - take s LMOutStop; timeout 60 (dd cdec).
  - take s LMExit; timeout 60 (dd cdec).
  - congruence.
Qed.
End Facts.

(* ------------------------------------------------------------------ *)
(* the five seeded defects are visible in this model: for each, the theorem it
   breaks is false for the mutated step function, by a computed witness *)
Definition reachable_gen (m : mutation) (c : config) (s : state) : Prop :=
  exists ls, run_gen m c (init c) ls = Some s.

(* no background / in-flight step is enabled *)
Definition stuck (m : mutation) (c : config) (s : state) : Prop :=
  forall l, bg l = true -> step_gen m c s l = None.

Definition cfg_plain := {| c_cap := 1; c_qcap := 10; c_ll := true; c_over := fun _ _ _ => false |}.
Definition cfg_limits :=
  {| c_cap := 1; c_qcap := 10; c_ll := true; c_over := fun t m b => (0 <? t) || m || b |}.
Definition cfg_noll := {| c_cap := 1; c_qcap := 10; c_ll := false; c_over := fun _ _ _ => false |}.

Ltac stuck_tac := intros l B; destruct l; try discriminate B;
  try (match goal with b : bool |- _ => destruct b end); vm_compute; reflexivity.

(* Mut1: the persister's ping is a blocking send under the collection lock.  The
   schedule of the harness's stall scenario: base busy, mid left behind, the merger
   woken by a ping (waitDirtyIncomingCh still armed) and parked before its ingest,
   ten more pings fill the queue, the persister publishes and loops around. *)
Definition sched_mut1 : list step_label :=
  [LMReply; LMCheck; LPTop;
   LWCall; LWCloseInc; LMSelInc; LMDrain; LMIngest; LMMergeOk; LMHandover;
   LPTop; LPChk;
   LMReply; LMCheck;
   LWCall; LWCloseInc; LMSelInc; LMDrain; LMIngest; LMMergeOk; LMHandover; LMReply; LMCheck;
   LNCall false; LNSend false; LMSelPing; LMDrain ] ++
  concat (repeat [LNCall false; LNSend false] 10) ++
  [LPUpdOk; LPPublish; LPCloseOut; LPTop].

Theorem no_block_under_lock_mut1_refuted :
  ~ (forall s, reachable_gen Mut1 cfg_plain s -> z_lk s = false).
Proof.
  intros H.
  destruct (run_gen Mut1 cfg_plain (init cfg_plain) sched_mut1) as [s|] eqn:E; [|vm_compute in E; discriminate].
  assert (R : reachable_gen Mut1 cfg_plain s) by (exists sched_mut1; exact E).
  apply H in R. vm_compute in E. injection E as <-. discriminate R.
Qed.

(* ... and then nothing at all can run any more: not the merger (it needs the lock),
   not a new ExecuteBatch, not Close *)
Theorem deadlock_free_mut1_refuted :
  exists s, reachable_gen Mut1 cfg_plain s /\ z_lk s = true /\ z_pp s = PSendLocked /\
            stuck Mut1 cfg_plain s /\
            step_mut1 cfg_plain s LWCall = None /\ step_mut1 cfg_plain s LCBegin = None.
Proof.
  destruct (run_gen Mut1 cfg_plain (init cfg_plain) sched_mut1) as [s|] eqn:E; [|vm_compute in E; discriminate].
  exists s. split; [exists sched_mut1; exact E|].
  vm_compute in E. injection E as <-.
  repeat split; try reflexivity. stuck_tac.
Qed.

(* Mut2: `if` instead of `for` around the back-pressure wait: two woken writers both push *)
Definition sched_mut2 : list step_label :=
  [LMReply; LMCheck; LWCall; LWCloseInc; LWCall; LWCall; LMSelInc; LMDrain; LMIngest;
   LWRecheck; LWRecheck].

Theorem bounded_top_mut2_refuted :
  ~ (forall s, reachable_gen Mut2 cfg_noll s -> z_top s <= c_cap cfg_noll).
Proof.
  intros H.
  destruct (run_gen Mut2 cfg_noll (init cfg_noll) sched_mut2) as [s|] eqn:E; [|vm_compute in E; discriminate].
  assert (R : reachable_gen Mut2 cfg_noll s) by (exists sched_mut2; exact E).
  apply H in R. vm_compute in E. injection E as <-. vm_compute in R. lia.
Qed.

(* Mut3: after a failed LowerLevelUpdate the persister waits on stackDirtyBaseCond; with
   dirty limits the merger waits on the outgoing channel, the top fills, a writer waits *)
Definition sched_mut3 : list step_label :=
  [LMReply; LMCheck; LPTop; LWCall; LWCloseInc; LMSelInc; LMDrain; LMIngest; LMMergeOk; LMHandover;
   LPTop; LPChk; LPUpdFail; LWCall; LWCall].

Theorem deadlock_free_mut3_refuted :
  exists s, reachable_gen Mut3 cfg_limits s /\ z_closed s = false /\ 0 < z_wwait s /\
            z_pp s = PWait /\ z_base s = true /\ stuck Mut3 cfg_limits s.
Proof.
  destruct (run_gen Mut3 cfg_limits (init cfg_limits) sched_mut3) as [s|] eqn:E; [|vm_compute in E; discriminate].
  exists s. split; [exists sched_mut3; exact E|].
  vm_compute in E. injection E as <-.
  repeat split; try reflexivity; try (vm_compute; lia). stuck_tac.
Qed.

(* Mut4: a DeferredSort writer unlocks, sorts, relocks and waits without re-checking:
   the merger's ingest and its Broadcast fall into the sort *)
Definition sched_mut4 : list step_label :=
  [LMReply; LMCheck; LWCall; LWCloseInc; LWCall; LMSelInc; LMDrain; LMIngest; LWRelock;
   LMMergeOk; LMHandover; LMReply; LMCheck].

Theorem no_lost_wakeup_mut4_refuted :
  exists s, reachable_gen Mut4 cfg_noll s /\ 0 < z_wwait s /\ z_top s < c_cap cfg_noll /\
            z_closed s = false /\ stuck Mut4 cfg_noll s.
Proof.
  destruct (run_gen Mut4 cfg_noll (init cfg_noll) sched_mut4) as [s|] eqn:E; [|vm_compute in E; discriminate].
  exists s. split; [exists sched_mut4; exact E|].
  vm_compute in E. injection E as <-.
  repeat split; try reflexivity; try (vm_compute; lia). stuck_tac.
Qed.

(* Mut5: the exiting merger does not answer the pings still queued: Close has returned,
   every goroutine is gone, the synchronous NotifyMerger waits forever *)
Definition sched_mut5 : list step_label :=
  [LMReply; LMCheck; LNCall true; LNSend true; LCBegin; LMSelStop; LMExit; LCJoinM; LCJoinP; LCFinal].

Theorem exit_answers_all_mut5_refuted :
  exists s, reachable_gen Mut5 cfg_noll s /\ z_cp s = CRet /\ z_mp s = MDone /\
            waitpong s = 1 /\ z_nans s = 0.
Proof.
  destruct (run_gen Mut5 cfg_noll (init cfg_noll) sched_mut5) as [s|] eqn:E; [|vm_compute in E; discriminate].
  exists s. split; [exists sched_mut5; exact E|].
  vm_compute in E. injection E as <-.
  repeat split; reflexivity.
Qed.

(* the statement Mut5 breaks, for the current code: the exiting merger answers every
   synchronous ping that is still listened to, queued or collected *)
Theorem exit_answers_all c s s' :
  step c s LMExit = Some s' ->
  waitpong s' = 0 /\ z_nans s' = z_nans s + waitpong s /\ z_mp s' = MDone.
Proof.
  intros H. step_cases H. unfold waitpong; zs. cbn [nsync]. repeat split; lia.
Qed.

(* the same schedules on the current code end in states that can go on / are answered *)
Example sched_mut1_current_ok :
  exists s, run cfg_plain (init cfg_plain) sched_mut1 = Some s /\ z_lk s = false /\
            step cfg_plain s LMIngest <> None.
Proof.
  destruct (run cfg_plain (init cfg_plain) sched_mut1) as [s|] eqn:E; [|vm_compute in E; discriminate].
  exists s. split; auto. vm_compute in E. injection E as <-. split; [reflexivity|vm_compute; discriminate].
Qed.
Example sched_mut5_current_ok :
  exists s, run cfg_noll (init cfg_noll) sched_mut5 = Some s /\ z_nans s = 1 /\ waitpong s = 0.
Proof.
  destruct (run cfg_noll (init cfg_noll) sched_mut5) as [s|] eqn:E; [|vm_compute in E; discriminate].
  exists s. split; auto. vm_compute in E. injection E as <-. split; reflexivity.
Qed.

(* ------------------------------------------------------------------ *)
(* Mut6 = the code before the repair of the notify-after-Close hang: NotifyMerger has no stop case.  Once the merger
   has run its exit handler nobody receives from pingMergerCh any more:
   (a) a synchronous NotifyMerger issued (or whose send lands) after that is never
       answered - the call hangs forever although Close has returned;
   (b) after cap(pingMergerCh) further notifications even an asynchronous NotifyMerger
       blocks forever in its send.
   So "Close releases every caller / after Close every call returns" is false for
   NotifyMerger.  (F27's repair only covers pings sent before the exit handler ran.) *)
Lemma merger_done_forever c s l s' :
  step_mut6 c s l = Some s' -> z_mp s = MDone ->
  z_mp s' = MDone /\ z_nans s' = z_nans s /\ length (z_q s) <= length (z_q s') /\
  nsync (z_q s) <= nsync (z_q s').
Proof.
  intros H D.
  assert (A : forall (q : list bool) b, length q <= length (q ++ [b]) /\ nsync q <= nsync (q ++ [b])).
  { induction q as [|x r IH]; intros b; simpl; [lia|]. destruct (IH b). lia. }
  unfold step_mut6 in H. destruct l;
  try (match goal with b : bool |- _ => destruct b end);
  try (unfold step_gen in H; discriminate H);
  step_cases H; try congruence;
  unfold writer_enter, broadcast_base, broadcast_top, room in *; zs.
  all: repeat match goal with |- context[if ?b then _ else _] => destruct b end; zs.
  all: try rewrite D in *; try discriminate.
  all: try (match goal with g : option nat |- _ => destruct g end); zs.
  all: repeat match goal with |- context[match z_pp ?x with _ => _ end] => destruct (z_pp x) end; zs.
  all: repeat split; auto; try apply A; try lia.
Qed.

Lemma merger_done_forever_run c ls : forall s s',
  run_gen Mut6 c s ls = Some s' -> z_mp s = MDone ->
  z_mp s' = MDone /\ z_nans s' = z_nans s /\ length (z_q s) <= length (z_q s') /\
  nsync (z_q s) <= nsync (z_q s').
Proof.
  induction ls as [|l r IH]; intros s s' H D; simpl in H.
  - injection H as <-. repeat split; auto.
  - destruct (step_gen Mut6 c s l) as [s1|] eqn:E; [|discriminate].
    destruct (merger_done_forever c s l s1 E D) as (D1 & A1 & L1 & N1).
    destruct (IH s1 s' H D1) as (D2 & A2 & L2 & N2). repeat split; auto; lia.
Qed.

Definition sched_notify_after_close : list step_label :=
  [LMReply; LMCheck; LCBegin; LMSelStop; LMExit; LCJoinM; LCJoinP; LCFinal;
   LNCall true; LNSend true].

Theorem close_releases_all_mut6_refuted :
  exists s, reachable_gen Mut6 cfg_noll s /\ z_cp s = CRet /\ z_mp s = MDone /\ z_pp s = PDone /\
    waitpong s = 1 /\
    (forall ls s', run_gen Mut6 cfg_noll s ls = Some s' -> 1 <= waitpong s' /\ z_nans s' = z_nans s).
Proof.
  destruct (run_gen Mut6 cfg_noll (init cfg_noll) sched_notify_after_close) as [s|] eqn:E; [|vm_compute in E; discriminate].
  exists s. split; [exists sched_notify_after_close; exact E|].
  vm_compute in E. injection E as <-.
  split; [reflexivity|]. split; [reflexivity|]. split; [reflexivity|]. split; [reflexivity|].
  intros ls s' H.
  pose proof (merger_done_forever_run _ _ _ _ H eq_refl) as (_ & A & _ & N).
  split; [|exact A]. unfold waitpong. cbn [nsync z_q] in N. lia.
Qed.

Definition sched_notify_queue_full : list step_label :=
  [LMReply; LMCheck; LCBegin; LMSelStop; LMExit; LCJoinM; LCJoinP; LCFinal] ++
  concat (repeat [LNCall false; LNSend false] 10) ++ [LNCall false].

Theorem async_notify_after_close_blocks_mut6_refuted :
  exists s, reachable_gen Mut6 cfg_noll s /\ z_cp s = CRet /\ z_nasy s = 1 /\
    (forall ls s', run_gen Mut6 cfg_noll s ls = Some s' ->
       step_mut6 cfg_noll s' (LNSend false) = None /\ step_mut6 cfg_noll s' (LNStopSend false) = None).
Proof.
  destruct (run_gen Mut6 cfg_noll (init cfg_noll) sched_notify_queue_full) as [s|] eqn:E; [|vm_compute in E; discriminate].
  exists s. split; [exists sched_notify_queue_full; exact E|].
  vm_compute in E. injection E as <-.
  split; [reflexivity|]. split; [reflexivity|].
  intros ls s' H.
  pose proof (merger_done_forever_run _ _ _ _ H eq_refl) as (_ & _ & L & _).
  cbn [length z_q] in L.
  split; [|reflexivity].
  unfold step_mut6, step_gen, guard, room. cbn [c_qcap cfg_noll].
  assert (Q : (length (z_q s') <? 10) = false) by (apply Nat.ltb_ge; lia).
  rewrite Q. rewrite andb_false_r. reflexivity.
Qed.

(* the same two schedules on the current code: the caller's stop case is enabled *)
Example sched_mut6_current_ok :
  (exists s, run cfg_noll (init cfg_noll) sched_notify_after_close = Some s /\
             exists s', step cfg_noll s (LNStopWaitQ 0) = Some s' /\ waitpong s' = 0 /\ z_nerr s' = 1) /\
  (exists s, run cfg_noll (init cfg_noll) sched_notify_queue_full = Some s /\
             exists s', step cfg_noll s (LNStopSend false) = Some s' /\ z_nasy s' = 0 /\ z_nerr s' = 1).
Proof.
  split.
  - destruct (run cfg_noll (init cfg_noll) sched_notify_after_close) as [s|] eqn:E; [|vm_compute in E; discriminate].
    exists s. split; auto. vm_compute in E. injection E as <-.
    eexists. split; [vm_compute; reflexivity|]. split; reflexivity.
  - destruct (run cfg_noll (init cfg_noll) sched_notify_queue_full) as [s|] eqn:E; [|vm_compute in E; discriminate].
    exists s. split; auto. vm_compute in E. injection E as <-.
    eexists. split; [vm_compute; reflexivity|]. split; reflexivity.
Qed.

(* observation (not a C16 violation: no caller is blocked): unpersisted data can sit in
   stackDirtyMid with the merger asleep and the persister waiting, until the next batch
   or notification (the idle waker rescues it when MergerIdleRunTimeoutMS > 0): the
   persister's wake-up test sees waitDirtyIncomingCh == nil between the merger's
   skipped hand-over and its going to sleep *)
Definition sched_persist_stall : list step_label :=
  [LMReply; LMCheck; LPTop;
   LWCall; LWCloseInc; LMSelInc; LMDrain; LMIngest; LMMergeOk; LMHandover; LPTop; LPChk;
   LMReply; LMCheck;
   LWCall; LWCloseInc; LMSelInc; LMDrain; LMIngest; LMMergeOk; LMHandover;
   LPUpdOk; LPPublish; LPCloseOut; LPTop; LMReply; LMCheck].

Example persist_stall_reachable :
  exists s, reachable_gen MutNone cfg_plain s /\ z_mid s = true /\ z_base s = false /\
            z_mp s = MSelect /\ z_pp s = PWait /\ stuck MutNone cfg_plain s.
Proof.
  destruct (run_gen MutNone cfg_plain (init cfg_plain) sched_persist_stall) as [s|] eqn:E; [|vm_compute in E; discriminate].
  exists s. split; [exists sched_persist_stall; exact E|].
  vm_compute in E. injection E as <-.
  repeat split; try reflexivity. stuck_tac.
Qed.

(* run_schedule is executable: the existing sync family's labels *)
Example run_schedule_example :
  run_schedule cfg_noll
    ([LMReply; LMCheck] ++ sched_arrive ++ [LWCloseInc] ++ sched_arrive ++ [LMSelInc; LMDrain]
     ++ sched_ingest ++ [LWRecheck] ++ sched_cycleend_noll ++ sched_notifysync)
  = Some {| o_top := 1; o_blocked := 0; o_ok := 2; o_closedret := 0; o_syncret := 0; o_notiferr := 0;
            o_closed := false |}.
Proof. vm_compute. reflexivity. Qed.

Print Assumptions reachable_inv.
Print Assumptions bounded_top2.
Print Assumptions no_lost_wakeup.
Print Assumptions no_block_under_lock.
Print Assumptions after_close_execute_batch.
Print Assumptions no_block_under_lock_mut1_refuted.
Print Assumptions deadlock_free_mut1_refuted.
Print Assumptions bounded_top_mut2_refuted.
Print Assumptions deadlock_free_mut3_refuted.
Print Assumptions no_lost_wakeup_mut4_refuted.
Print Assumptions exit_answers_all_mut5_refuted.
Print Assumptions exit_answers_all.
Print Assumptions close_releases_all_mut6_refuted.
Print Assumptions async_notify_after_close_blocks_mut6_refuted.
Print Assumptions close_releases_all.
Print Assumptions notify_after_close_returns.
Print Assumptions close_step_partial.
Print Assumptions open_step.
Print Assumptions open_drain.
