(* IteratorIncl.v — specification of the moss iterator for
   IteratorOptions.IncludeDeletions = true.  Executable definitions ONLY; every
   lemma is in IteratorInclFacts.v.

   Two specifications of SeekTo are given:
   - seek_natural: position at the first entry whose key is >= max(x, start);
   - seek_naive:   what moss does.  When the iterator stands on a live (non
     deletion) entry whose key is below x, SeekTo walks forward with Next for
     at most c_tries steps (naiveSeekTo) and stops only on a NON-deletion
     entry with key >= x: Current() reports a nil key for a deletion entry and
     bytes.Compare(x, nil) <= 0 is false.  Deletion entries at or after x are
     stepped over.  Everywhere else (standing on a deletion, exhausted, x at or
     behind the current key, budget exhausted) it is the natural seek. *)
From Moss Require Export Iterator.
From Coq Require Import Arith.

Section SeekList.
  Context {A : Type}.
  Variable isdel : A -> bool.

  (* the loop of naiveSeekTo over the entries that are left; n = iterations left *)
  Fixpoint walk (n : nat) (x : bytes) (l : list (bytes * A)) : list (bytes * A) * nres :=
    match n with
    | O => (l, NMax)
    | S n' =>
        match l with
        | [] => ([], NDone)
        | (k, a) :: t =>
            if negb (isdel a) && bleb x k then (l, NOk)
            else match t with
                 | [] => ([], NDone)
                 | _ :: _ => walk n' x t
                 end
        end
    end.

  (* maxTries <= 0 is unbounded: one more iteration than entries left never runs out *)
  Definition walk_fuel (tries : nat) (l : list (bytes * A)) : nat :=
    if Nat.eqb tries 0 then S (length l) else tries.

  (* SeekTo x when the entries left are l and the whole range is full *)
  Definition seek_list (start : option bytes) (tries : nat) (full : list (bytes * A))
             (x : bytes) (l : list (bytes * A)) : list (bytes * A) :=
    let restart := drop_lt (seek_bound start x) full in
    match l with
    | [] => restart
    | (k, a) :: _ =>
        if isdel a then restart
        else match bcmp x k with
             | Eq => l
             | Lt => restart
             | Gt => match walk (walk_fuel tries l) x l with
                     | (_, NMax) => restart
                     | (l', _) => l'
                     end
             end
    end.

  (* drop leading deletion entries *)
  Fixpoint skip_dels (l : list (bytes * A)) : list (bytes * A) :=
    match l with
    | [] => []
    | (k, a) :: t => if isdel a then skip_dels t else l
    end.

  (* the suffix that starts at the first live entry with key >= x *)
  Fixpoint first_live_ge (x : bytes) (l : list (bytes * A)) : list (bytes * A) :=
    match l with
    | [] => []
    | (k, a) :: t => if negb (isdel a) && bleb x k then l else first_live_ge x t
    end.

  Definition hd_isdel (l : list (bytes * A)) : bool :=
    match l with (_, a) :: _ => isdel a | [] => false end.

  (* the one situation in which moss does not seek naturally: standing on a live
     entry below x while the first entry at or after x is a deletion *)
  Definition fwd_onto_del (x : bytes) (l : list (bytes * A)) : bool :=
    match l with
    | (k, a) :: _ => negb (isdel a) && bltb k x && hd_isdel (drop_lt x l)
    | [] => false
    end.
End SeekList.

Section SpecIncl.
  Variable fm : bytes -> value -> bytes -> value.

  (* key, newest operation, value Current() reports *)
  Definition ientry := (bytes * (op * value))%type.

  Definition dec (cfg : config) (e : entry) : ientry :=
    (fst e, (snd e, full_get fm cfg (fst e))).

  (* every key of [start,end) that occurs in a segment or in the lower level,
     ascending, with its newest operation and its value over the whole stack *)
  Definition raw_spec (cfg : config) : list ientry := map (dec cfg) (raw_range cfg).

  Definition idel (a : op * value) : bool := is_del (fst a).

  Definition spec_current_incl (l : list ientry) : result :=
    match l with
    | [] => RDone
    | (k, (o, v)) :: _ => if is_del o then RDeleted else RCur k v
    end.

  Definition spec_current_ex (l : list ientry) : option entry :=
    match l with
    | [] => None
    | (k, (o, _)) :: _ => Some (k, o)
    end.

  Definition seek_natural (cfg : config) (x : bytes) (l : list ientry) : list ientry :=
    drop_lt (seek_bound (c_start cfg) x) (raw_spec cfg).

  Definition seek_naive (cfg : config) (x : bytes) (l : list ientry) : list ientry :=
    seek_list idel (c_start cfg) (c_tries cfg) (raw_spec cfg) x l.

  Section Run.
    Variable seek : config -> bytes -> list ientry -> list ientry.

    Fixpoint run_spec_incl_from (cfg : config) (l : list ientry) (prog : list call) : list result :=
      match prog with
      | [] => []
      | CNext :: p => is_ok (nonempty (tl l)) :: run_spec_incl_from cfg (tl l) p
      | CSeek x :: p =>
          let l' := seek cfg x l in
          is_ok (nonempty l') :: run_spec_incl_from cfg l' p
      | CCurrent :: p => spec_current_incl l :: run_spec_incl_from cfg l p
      end.

    (* entries left after the program *)
    Fixpoint exec_spec_incl (cfg : config) (l : list ientry) (prog : list call) : list ientry :=
      match prog with
      | [] => l
      | CNext :: p => exec_spec_incl cfg (tl l) p
      | CSeek x :: p => exec_spec_incl cfg (seek cfg x l) p
      | CCurrent :: p => exec_spec_incl cfg l p
      end.
  End Run.

  (* the natural specification *)
  Definition run_spec_incl (cfg : config) (prog : list call) : list result :=
    run_spec_incl_from seek_natural cfg (raw_spec cfg) prog.

  (* the specification moss meets *)
  Definition run_spec_incl_naive (cfg : config) (prog : list call) : list result :=
    run_spec_incl_from seek_naive cfg (raw_spec cfg) prog.

  (* programs on which the two agree: no SeekTo walks forward onto a deletion *)
  Fixpoint tame (cfg : config) (l : list ientry) (prog : list call) : bool :=
    match prog with
    | [] => true
    | CNext :: p => tame cfg (tl l) p
    | CSeek x :: p => negb (fwd_onto_del idel x l) && tame cfg (seek_natural cfg x l) p
    | CCurrent :: p => tame cfg l p
    end.
End SpecIncl.

(* model state after a program *)
Fixpoint exec_calls (st : iter_state) (prog : list call) : iter_state :=
  match prog with
  | [] => st
  | CNext :: p => exec_calls (fst (iter_next st)) p
  | CSeek x :: p => exec_calls (fst (iter_seek x st)) p
  | CCurrent :: p => exec_calls st p
  end.
