From Coq Require Import List NArith Bool Lia.
From Moss Require Import Bytes.

Lemma bcmp_refl a : bcmp a a = Eq.
Proof. induction a as [|x a IH]; simpl; [reflexivity|]. now rewrite N.compare_refl. Qed.

Lemma bcmp_eq a b : bcmp a b = Eq <-> a = b.
Proof.
  split; [|intros ->; apply bcmp_refl].
  revert b; induction a as [|x a IH]; intros [|y b]; simpl; try discriminate; auto.
  destruct (N.compare x y) eqn:E; try discriminate.
  apply N.compare_eq in E; subst. intros H; f_equal; auto.
Qed.

Lemma bcmp_antisym a b : bcmp b a = CompOpp (bcmp a b).
Proof.
  revert b; induction a as [|x a IH]; intros [|y b]; simpl; auto.
  rewrite (N.compare_antisym x y). destruct (N.compare x y); simpl; auto.
Qed.

Lemma bcmp_lt_gt a b : bcmp a b = Lt <-> bcmp b a = Gt.
Proof. rewrite (bcmp_antisym a b). destruct (bcmp a b); simpl; split; congruence. Qed.

Lemma bcmp_trans a b c : bcmp a b = Lt -> bcmp b c = Lt -> bcmp a c = Lt.
Proof.
  revert b c; induction a as [|x a IH]; intros [|y b] [|z c]; simpl; try discriminate; auto.
  destruct (N.compare x y) eqn:E1; try discriminate;
  destruct (N.compare y z) eqn:E2; try discriminate; intros H1 H2.
  - apply N.compare_eq in E1, E2; subst. rewrite N.compare_refl. eauto.
  - apply N.compare_eq in E1; subst. now rewrite E2.
  - apply N.compare_eq in E2; subst. now rewrite E1.
  - rewrite N.compare_lt_iff in *. assert (H: (x < z)%N) by lia.
    apply N.compare_lt_iff in H. now rewrite H.
Qed.

Lemma bcmp_lt_irrefl a : bcmp a a <> Lt.
Proof. rewrite bcmp_refl; discriminate. Qed.

Lemma bcmp_eq_l a b c : bcmp a b = Eq -> bcmp a c = bcmp b c.
Proof. intros H; apply bcmp_eq in H; now subst. Qed.

Lemma bcmp_le_lt_trans a b c : bcmp a b <> Gt -> bcmp b c = Lt -> bcmp a c = Lt.
Proof.
  intros H1 H2. destruct (bcmp a b) eqn:E; try congruence.
  - apply bcmp_eq in E; now subst.
  - eapply bcmp_trans; eauto.
Qed.

Lemma bcmp_lt_le_trans a b c : bcmp a b = Lt -> bcmp b c <> Gt -> bcmp a c = Lt.
Proof.
  intros H1 H2. destruct (bcmp b c) eqn:E; try congruence.
  - apply bcmp_eq in E; now subst.
  - eapply bcmp_trans; eauto.
Qed.

Lemma beqb_true a b : beqb a b = true <-> a = b.
Proof. unfold beqb. rewrite <- bcmp_eq. destruct (bcmp a b); split; congruence. Qed.

Lemma beqb_refl a : beqb a a = true.
Proof. now apply beqb_true. Qed.

Lemma beqb_false a b : beqb a b = false <-> a <> b.
Proof. rewrite <- beqb_true. destruct (beqb a b); split; congruence. Qed.

Lemma beqb_sym a b : beqb a b = beqb b a.
Proof.
  destruct (beqb a b) eqn:E.
  - apply beqb_true in E; subst; now rewrite beqb_refl.
  - symmetry. apply beqb_false. apply beqb_false in E. congruence.
Qed.

Lemma bltb_true a b : bltb a b = true <-> bcmp a b = Lt.
Proof. unfold bltb; destruct (bcmp a b); split; congruence. Qed.

Lemma bcmp_gt_lt a b : bcmp a b = Gt -> bcmp b a = Lt.
Proof. intros H. now apply bcmp_lt_gt. Qed.

(* Dropping a common prefix preserves the order: justification for the
   iterator's prefix-stripped heap comparison. *)
Lemma bcmp_app_prefix p a b : bcmp (p ++ a) (p ++ b) = bcmp a b.
Proof. induction p as [|x p IH]; simpl; auto. now rewrite N.compare_refl. Qed.

Lemma bcmp_nil_l a : bcmp [] a <> Gt.
Proof. destruct a; simpl; discriminate. Qed.
