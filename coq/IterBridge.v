(* IterBridge.v — the iterator of a collection snapshot: ties the collection
   model (Collection.v) to the iterator model (Iterator.v).  Definitions only. *)
From Moss Require Export Bytes Segment Stack Collection Iterator.

Section WithMerge.
  Variable fm : bytes -> value -> bytes -> value.

  (* what the lower-level snapshot's own iterator enumerates: the live keys of
     the lower level with their values, ascending (IterBridgeFacts.v proves this
     IS live_range of the lower level's segments, i.e. what C09 says that
     iterator yields) *)
  Definition ll_entry (l : llsnap) (k : bytes) : list kv :=
    match llv fm l k with Some b => [(k, b)] | None => [] end.
  Definition ll_entries (l : llsnap) : list kv := flat_map (ll_entry l) (all_keys l).

  (* Snapshot.StartIterator(start, end, IteratorOptions{}) on snapshot sn *)
  Definition snap_cfg (sn : snapshot) (start end_ : option bytes) (tries : nat) : config :=
    mk_cfg (sn_segs sn) (Some (ll_entries (sn_ll sn))) start end_ false tries.

  (* the iterator of the lower level itself (a store snapshot: no lower level of its own) *)
  Definition ll_cfg (l : llsnap) : config := mk_cfg l None None None false 0.
End WithMerge.

(* a merge operator that never returns nil (the nil case is known finding F17b) *)
Definition nonil (fm : bytes -> value -> bytes -> value) : Prop :=
  forall k cur v, fm k cur v <> None.
