(* OwnersProgressLoops.v -- the tactic that runs one step of an operation's
   program by the rules of OwnersProgressRules.v, and the rules for the loops
   of Owners.v (loadSegments, the child footers / child stacks of a snapshot, a
   merge, a refresh).  Used by OwnersProgressFacts.v. *)
From Coq Require Import List Arith Bool Lia.
From Moss Require Import Owners OwnersFacts OwnersProgress OwnersProgressRules.
Import ListNotations.

(* what the merger's and the persister's temporaries hold between steps *)
Definition Ctl (st : state) : Prop :=
  (mph (ct st) <> 1 -> regs st MMid = None /\ regs st MBase = None) /\
  (pph (ct st) <> 2 -> regs st PNext = None).
Definition Good (st : state) : Prop := G st /\ hand st = [] /\ Ctl st.

(* ------------------------------------------------------------------ *)
(* one step of a program *)

Ltac norm :=
  cbv beta iota;
  cbn [hp files regs handles hand leaked elog ct with_ct with_hp rset slot_eqb olist app whenS okind
       handle_ty nch mph pph pbase copen sopen cur nextfile inc] in *;
  repeat match goal with
         | H : okind _ _ _ /\ _ |- _ => destruct H
         | H : True /\ _ |- _ => destruct H
         | H : hask _ _ _ /\ _ |- _ => destruct H
         end.

Ltac rewrite_known :=
  repeat match goal with
         | E : ?r ?sl = _ |- context [?r ?sl] => is_var r; rewrite E
         | E : ?r ?sl = _, H : context [?r ?sl] |- _ =>
             is_var r; tryif constr_eq H E then fail else rewrite E in H
         end.

(* the state an operation starts in *)
Definition Init (st : state) : Prop := G st.

Ltac grow_tac :=
  solve [ apply grow_refl | assumption | eapply grow_trans; [eassumption | grow_tac] ].
Ltac kext_tac :=
  solve [ apply kext_refl | assumption | apply grow_kext; grow_tac
        | eapply kext_trans;
          [ first [ eassumption | apply grow_kext; eassumption | apply dec_kext; eassumption ]
          | kext_tac ] ].

Ltac derive E :=
  try match type of E with
      | first_ref ?a ?s = Some ?o =>
          match goal with
          | HG : G s, Ha : hask _ a ?k |- _ =>
              let H1 := fresh "Hk" in let H2 := fresh "Hl" in
              destruct (first_ref_facts s a k o HG E Ha) as [H1 H2]; cbn [ref_kind] in H1; norm
          end
      | nth_error (kids_of ?a ?s) ?i = Some ?c =>
          match goal with
          | HG : G s, Ha : hask _ a ?k |- _ =>
              let H1 := fresh "Hk" in let H2 := fresh "Hl" in let H3 := fresh "Hk" in
              destruct (kid_facts s a k i c HG E Ha) as [H1 H2];
              pose proof (has_hask _ _ _ _ H1) as H3; norm
          end
      | nth_error ?hs ?i = Some ?hd =>
          match goal with
          | HG : G (mkState ?a ?b ?c hs ?d ?e ?f ?g) |- _ =>
              let H1 := fresh "Hh" in
              pose proof (handle_facts (mkState a b c hs d e f g) i hd HG E) as H1; norm
          end
      | ?r ?sl = Some ?o =>
          match goal with
          | |- runs _ ?s _ =>
              match goal with
              | HG : G s |- _ =>
                  let H1 := fresh "Hk" in
                  pose proof (reg_facts s sl o HG E) as H1; cbn [slot_kind] in H1; norm
              end
          end
      | ?r ?sl = Some ?o =>
          match goal with
          | HI : Init (mkState ?h0 ?a r ?b ?c ?d ?e ?f) |- runs _ (mkState ?h1 _ _ _ _ _ _ _) _ =>
              let H1 := fresh "Hk" in
              pose proof (reg_facts (mkState h0 a r b c d e f) sl o HI E) as H1;
              cbn [slot_kind] in H1; norm;
              let K := fresh "K" in
              assert (K : kext h0 h1) by kext_tac;
              apply (hask_kext _ _ _ _ K) in H1; clear K
          end
      | _ = Some ?fr =>
          match goal with
          | |- runs _ ?s _ =>
              match goal with
              | HG : G s, Hf : hask _ ?f KFooter |- _ =>
                  let H1 := fresh "Hk" in let H2 := fresh "Hl" in
                  first [ destruct (file_ref_facts s f fr HG Hf E) as [H1 H2]
                        | destruct (first_file_facts s f fr HG Hf E) as [H1 H2] ]; norm
              end
          end
      end.

Ltac scrut x :=
  first [ is_var x; destruct x
        | let E := fresh "E" in destruct x eqn:E; try rewrite E in *; derive E ].

Ltac guard_hyps :=
  unfold reg, is_some in *; norm;
  repeat match goal with
         | H : (_ && _) = true |- _ => apply andb_prop in H; destruct H
         end;
  repeat match goal with
         | H : Nat.eqb _ _ = true |- _ => apply Nat.eqb_eq in H
         | H : negb _ = true |- _ => apply negb_true_iff in H
         | H : match ?x with Some _ => true | None => false end = true |- _ =>
             let E := fresh "E" in destruct x eqn:E; [|discriminate H]; try rewrite E in *; clear H;
             derive E
         | H : match ?x with Some _ => true | None => false end = false |- _ =>
             let E := fresh "E" in destruct x eqn:E; [discriminate H|]; try rewrite E in *; clear H
         end.

Ltac allk_tac :=
  cbn [ref_kind olist];
  first [ assumption | apply allk_nil | apply allk_one; assumption
        | apply allk_one; eapply has_hask; eassumption
        | apply allk_app; allk_tac | apply allk_firstn; allk_tac
        | eapply allhas_allk; eassumption
        | match goal with
          | |- allk _ (kids_of ?a ?s) ?k =>
              match goal with HG : G s, Ha : hask _ a k |- _ =>
                eapply allhas_allk; apply (proj1 (kids_facts s a k HG Ha)) end
          | |- allk _ (refs_of ?a ?s) _ =>
              match goal with HG : G s, Ha : hask _ a ?k |- _ =>
                apply (proj1 (refs_facts s a k HG Ha)) end
          end ].
Lemma holds_alllive s a rs ks : G s -> holds (hp s) a rs ks -> alllive (hp s) rs.
Proof.
  intros HG [ob [E [A B]]] r Hr. eapply live_ref; eauto. unfold orefs. apply in_or_app. left.
  rewrite A. exact Hr.
Qed.
Ltac alllive_tac :=
  first [ assumption | apply alllive_nil | apply alllive_firstn; alllive_tac
        | match goal with
          | Hh : holds ?h ?a ?rs _, HG : G (mkState ?h ?x1 ?x2 ?x3 ?x4 ?x5 ?x6 ?x7) |- alllive ?h ?rs =>
              apply (holds_alllive (mkState h x1 x2 x3 x4 x5 x6 x7) a rs _ HG Hh)
          end
        | match goal with
          | |- alllive _ (kids_of ?a ?s) =>
              match goal with HG : G s, Ha : hask _ a ?k |- _ =>
                apply (proj2 (kids_facts s a k HG Ha)) end
          | |- alllive _ (refs_of ?a ?s) =>
              match goal with HG : G s, Ha : hask _ a ?k |- _ =>
                apply (proj2 (refs_facts s a k HG Ha)) end
          end ].
Ltac allhas_tac :=
  first [ assumption | apply allhas_nil | apply allhas_one; assumption
        | apply allhas_app; allhas_tac ].
Ltac hask_tac :=
  cbn [slot_kind ref_kind]; first [ assumption | eapply has_hask; eassumption ].
Ltac hty_tac :=
  cbn [handle_ty okind]; repeat split; first [ hask_tac | exact I ].

Lemma runs_bump_file' s (Q : state -> Prop) : G s ->
  (G (mkState (hp s) (nextfile (ct s) :: files s) (regs s) (handles s) (hand s) (leaked s) (elog s)
        (mkCtl (nch (ct s)) (mph (ct s)) (pph (ct s)) (pbase (ct s)) (copen (ct s)) (sopen (ct s))
               (Some (nextfile (ct s))) (S (nextfile (ct s))) (inc (ct s)))) ->
   Q (mkState (hp s) (nextfile (ct s) :: files s) (regs s) (handles s) (hand s) (leaked s) (elog s)
        (mkCtl (nch (ct s)) (mph (ct s)) (pph (ct s)) (pbase (ct s)) (copen (ct s)) (sopen (ct s))
               (Some (nextfile (ct s))) (S (nextfile (ct s))) (inc (ct s))))) ->
  runs bump_file s Q.
Proof.
  intros HG K. eexists. split; [reflexivity|]. apply K. eapply G_frame; [..|exact HG]; reflexivity.
Qed.

Ltac ctl_facts :=
  try match goal with
      | C1 : ?m <> 1 -> ?a = None /\ ?b = None |- _ =>
          let X := fresh "Em" in let Y := fresh "Eb" in
          assert (X : a = None /\ b = None) by (apply C1; lia); destruct X as [X Y]
      end;
  try match goal with
      | C2 : ?m <> 2 -> ?a = None |- _ =>
          let X := fresh "Ep" in assert (X : a = None) by (apply C2; lia)
      end.

Ltac rstep :=
  norm; rewrite_known; norm;
  lazymatch goal with
  | |- runs (bind _ _) _ _ => apply runs_bind
  | |- runs ret _ _ => apply runs_ret
  | |- runs (rd _ _) _ _ => apply runs_rd; cbv beta; unfold reg, cur_inc
  | |- runs (whenS ?x _) _ _ => scrut x
  | |- runs (odecref _) _ _ => unfold odecref
  | |- runs (close_slot _) _ _ => unfold close_slot
  | |- runs invalidate _ _ => unfold invalidate, close_slot
  | |- runs (guard _ _) _ _ =>
      apply runs_guard; [ let Hg := fresh "Hg" in intro Hg; guard_hyps; ctl_facts | let Hg := fresh "Hg" in intro Hg ]
  | |- runs (addref ?o) ?s _ =>
      withG ltac:(fun HG =>
        apply (runs_addref o s _ HG);
        [ try solve [live_tac]
        | let Hgr := fresh "Hgr" in let HG' := fresh "HG" in
          intros ? ? HG' Hgr; norm; tr_grow Hgr; clear HG ])
  | |- runs (decref ?o) ?s _ =>
      withG ltac:(fun HG =>
        apply (runs_decref o s _ HG);
        [ norm; try solve [hand_in]
        | let Hd := fresh "Hd" in let HG' := fresh "HG" in let Hs := fresh "Hs" in
          intros ? ? ? ? HG' Hd Hs; norm; tr_dec Hd; clear HG ])
  | |- runs (alloc_k ?k ?top ?rs ?ks ?file ?cont) ?s _ =>
      withG ltac:(fun HG =>
        apply (runs_alloc_k k top rs ks file cont s _ HG);
        [ norm; try solve [hand_le]
        | try solve [ left; discriminate | right; reflexivity ]
        | norm; try solve [allk_tac]
        | try solve [ left; reflexivity
                    | right; split; [reflexivity | first [left; reflexivity | right; reflexivity]] ]
        | norm; try solve [allhas_tac]
        | try solve [ let X := fresh "X" in (intro X; discriminate X) | intros _; simpl; lia | intros _; apply length_olist ]
        | let Hgr := fresh "Hgr" in let HG' := fresh "HG" in let Hs := fresh "Hs" in
          let Hh := fresh "Hhas" in let Hk := fresh "Hk" in
          intros ? ? ? HG' Hgr Hh Hs; norm; tr_grow Hgr;
          pose proof (has_hask _ _ _ _ Hh) as Hk; clear HG ])
  | |- runs (put ?sl ?o) ?s _ =>
      withG ltac:(fun HG =>
        apply (runs_put sl o s _ HG);
        [ norm; try solve [ reflexivity | assumption ]
        | norm; try solve [hand_in]
        | norm; try solve [hask_tac]
        | let HG' := fresh "HG" in let Hs := fresh "Hs" in intros ? HG' Hs; norm; clear HG ])
  | |- runs (take ?sl) ?s _ =>
      withG ltac:(fun HG =>
        apply (runs_take sl s _ HG); let HG' := fresh "HG" in intros HG'; norm; clear HG)
  | |- runs (pushh ?hd) ?s _ =>
      withG ltac:(fun HG =>
        apply (runs_pushh hd s _ HG);
        [ norm; try solve [hand_le]
        | norm; try solve [hty_tac]
        | let HG' := fresh "HG" in let Hs := fresh "Hs" in intros ? HG' Hs; norm; clear HG ])
  | |- runs (poph ?i) ?s _ =>
      withG ltac:(fun HG =>
        match goal with
        | E : nth_error _ i = Some ?hd |- _ =>
            apply (runs_poph i hd s _ HG);
            [ norm; exact E | let HG' := fresh "HG" in intros HG'; norm; clear HG ]
        end)
  | |- runs (set_ctl ?f) ?s _ =>
      withG ltac:(fun HG =>
        apply (runs_set_ctl f s _ HG); let HG' := fresh "HG" in intros HG'; norm; clear HG)
  | |- runs unlog ?s _ =>
      withG ltac:(fun HG =>
        apply (runs_unlog s _ HG); let HG' := fresh "HG" in intros ? HG'; norm; clear HG)
  | |- runs bump_file ?s _ =>
      withG ltac:(fun HG =>
        apply (runs_bump_file' s _ HG); let HG' := fresh "HG" in intros HG'; norm; clear HG)
  | |- runs (newfile _) _ _ => unfold newfile
  | |- runs (match ?x with _ => _ end) _ _ => scrut x
  end.
Ltac rgo := repeat rstep.

(* the end of an operation *)
Ltac ctl_tac :=
  unfold Ctl in *; norm; cbn [mph pph c_mph c_pph c_nch c_drop c_copen c_sopen] in *;
  repeat split; intros; try reflexivity; try assumption; try congruence;
  try (match goal with C : _ -> _ /\ _ |- _ => apply C; congruence || lia end);
  try (match goal with C : _ -> _ = None |- _ => apply C; congruence || lia end); try lia.
Ltac fin :=
  norm;
  lazymatch goal with
  | |- runs finish ?s _ =>
      apply runs_finish;
      [ norm; solve [hand_nil]
      | split; [ assumption | split; [ norm; solve [hand_nil] | ctl_tac ] ] ]
  end.

(* ------------------------------------------------------------------ *)
(* the loops *)

Lemma runs_each_addref ms : forall s (Q : state -> Prop), G s -> alllive (hp s) ms ->
  (forall h' l' lg',
     G (mkState h' (files s) (regs s) (handles s) l' (leaked s) lg' (ct s)) ->
     grow (hp s) h' -> hsplit l' ms (hand s) ->
     Q (mkState h' (files s) (regs s) (handles s) l' (leaked s) lg' (ct s))) ->
  runs (each ms addref) s Q.
Proof.
  induction ms as [|m r IH]; intros s Q HG A K; destruct s as [h fs rg hs l lk lg c]; simpl each; norm.
  - apply runs_ret. apply K; auto. apply grow_refl. intro x. rewrite cn_nil. lia.
  - assert (A' : alllive h r) by (intros x Hx; apply A; right; exact Hx).
    assert (Lm : live h m) by (apply A; left; reflexivity).
    norm. rstep. rstep. apply IH; auto. intros h2 l2 lg2 HG2 Hgr2 Hs2. norm. apply K; auto.
    + grow_tac.
    + hand_le.
Qed.

Lemma runs_new_mmaps n : forall fr acc cont s (Q : state -> Prop),
  G s -> live (hp s) fr -> hask (hp s) fr KFile ->
  (forall h' l' lg' ms,
     G (mkState h' (files s) (regs s) (handles s) l' (leaked s) lg' (ct s)) ->
     grow (hp s) h' -> hsplit l' ms (hand s) -> allk h' ms KMmap ->
     runs (cont (acc ++ ms)) (mkState h' (files s) (regs s) (handles s) l' (leaked s) lg' (ct s)) Q) ->
  runs (new_mmaps n fr acc cont) s Q.
Proof.
  induction n as [|n IH]; intros fr acc cont s Q HG L Hk K; destruct s as [h fs rg hs l lk lg c];
    simpl new_mmaps; norm.
  - norm. rewrite <- (app_nil_r acc). apply K; auto. apply grow_refl.
    intro x. rewrite cn_nil. lia. apply allk_nil.
  - norm. rstep. rstep. rstep. rstep. apply IH; auto.
    intros h2 l2 lg2 ms HG2 Hgr2 Hs2 Hms. norm. rewrite <- app_assoc. simpl app. apply K; auto.
    + grow_tac.
    + hand_le.
    + intros x [<-|Hx]; [|apply Hms; exact Hx]. eapply hask_kext; [apply grow_kext; exact Hgr2|].
      eapply has_hask; eassumption.
Qed.


Lemma runs_load_footer top old nnew fr ks tag cont s (Q : state -> Prop) :
  G s -> alllive (hp s) old -> allk (hp s) old KMmap -> live (hp s) fr -> hask (hp s) fr KFile ->
  allhas (hp s) ks KFooter false -> (ks = [] \/ top = true) -> hle ks (hand s) ->
  (forall h' l' lg' n,
     G (mkState h' (files s) (regs s) (handles s) (n :: l') (leaked s) lg' (ct s)) ->
     grow (hp s) h' -> hsplit (hand s) ks l' -> has h' n KFooter top ->
     runs (cont n) (mkState h' (files s) (regs s) (handles s) (n :: l') (leaked s) lg' (ct s)) Q) ->
  runs (load_footer top old nnew fr ks tag cont) s Q.
Proof.
  intros HG A1 A2 L Hk A3 Hs Hle K. destruct s as [h fs rg hs l lk lg c]. norm.
  unfold load_footer. rstep.
  apply runs_each_addref; [exact HG|exact A1|]. intros h1 l1 lg1 HG1 Hgr1 Hs1. norm. tr_grow Hgr1.
  apply runs_new_mmaps; [exact HG1|exact L|exact Hk|]. intros h2 l2 lg2 ms HG2 Hgr2 Hs2 Hms. norm.
  tr_grow Hgr2. rstep.
  - destruct Hs as [->| ->]; [left; reflexivity|right; split; [reflexivity|left; reflexivity]].
  - apply K; auto.
    + grow_tac.
    + hand_le.
Qed.

Definition kid_old (oldf : option oid) (keep : bool) (i t : nat) (st : state) : list oid :=
  match oldf with
  | Some f => if keep then match nth_error (kids_of f st) i with
                           | Some cf => if Nat.eqb (tag_of cf st) t then refs_of cf st else []
                           | None => [] end
              else []
  | None => [] end.
Lemma kid_old_facts s oldf keep i t : G s -> okind (hp s) oldf KFooter ->
  alllive (hp s) (kid_old oldf keep i t s) /\ allk (hp s) (kid_old oldf keep i t s) KMmap.
Proof.
  intros HG Hk. unfold kid_old. destruct oldf as [f|]; [|split; [apply alllive_nil|apply allk_nil]].
  destruct keep; [|split; [apply alllive_nil|apply allk_nil]].
  destruct (nth_error (kids_of f s) i) as [cf|] eqn:E; [|split; [apply alllive_nil|apply allk_nil]].
  destruct (Nat.eqb (tag_of cf s) t); [|split; [apply alllive_nil|apply allk_nil]].
  destruct (kid_facts s f KFooter i cf HG E Hk) as [H1 _].
  destruct (refs_facts s cf KFooter HG (has_hask _ _ _ _ H1)) as [A B]. auto.
Qed.

Lemma runs_load_kids tags : forall i oldf keep nnew fr acc cont s (Q : state -> Prop),
  G s -> live (hp s) fr -> hask (hp s) fr KFile -> okind (hp s) oldf KFooter ->
  (forall h' l' lg' ks,
     G (mkState h' (files s) (regs s) (handles s) l' (leaked s) lg' (ct s)) ->
     grow (hp s) h' -> hsplit l' ks (hand s) -> allhas h' ks KFooter false ->
     runs (cont (acc ++ ks)) (mkState h' (files s) (regs s) (handles s) l' (leaked s) lg' (ct s)) Q) ->
  runs (load_kids tags i oldf keep nnew fr acc cont) s Q.
Proof.
  induction tags as [|t tags IH]; intros i oldf keep nnew fr acc cont s Q HG L Hk Ho K;
    destruct s as [h fs rg hs l lk lg c]; simpl load_kids; norm.
  - rewrite <- (app_nil_r acc). apply K; auto. apply grow_refl.
    intro x. rewrite cn_nil. lia. apply allhas_nil.
  - apply runs_rd. cbv beta.
    destruct (kid_old_facts _ oldf keep i t HG Ho) as [A1 A2].
    apply runs_load_footer; norm; auto.
    + apply allhas_nil.
    + intro x. rewrite cn_nil. lia.
    + intros h1 l1 lg1 n HG1 Hgr1 Hs1 Hn. norm. tr_grow Hgr1.
      apply IH; auto. intros h2 l2 lg2 ks HG2 Hgr2 Hs2 Hks. norm.
      rewrite <- app_assoc. simpl app. apply K; auto.
      * grow_tac.
      * hand_le.
      * intros x [<-|Hx]; [|apply Hks; exact Hx]. eapply has_kext; [apply grow_kext; exact Hgr2|exact Hn].
Qed.

Lemma runs_plain_kids n : forall acc cont s (Q : state -> Prop), G s ->
  (forall h' l' ks,
     G (mkState h' (files s) (regs s) (handles s) l' (leaked s) (elog s) (ct s)) ->
     grow (hp s) h' -> hsplit l' ks (hand s) -> allhas h' ks KStack false ->
     runs (cont (acc ++ ks)) (mkState h' (files s) (regs s) (handles s) l' (leaked s) (elog s) (ct s)) Q) ->
  runs (plain_kids n acc cont) s Q.
Proof.
  induction n as [|n IH]; intros acc cont s Q HG K; destruct s as [h fs rg hs l lk lg c];
    simpl plain_kids; norm.
  - rewrite <- (app_nil_r acc). apply K; auto. apply grow_refl.
    intro x. rewrite cn_nil. lia. apply allhas_nil.
  - rstep. rstep. apply IH; auto. intros h2 l2 ks HG2 Hgr2 Hs2 Hks. norm.
    rewrite <- app_assoc. simpl app. apply K; auto.
    + grow_tac.
    + hand_le.
    + intros x [<-|Hx]; [|apply Hks; exact Hx]. eapply has_kext; [apply grow_kext; exact Hgr2|eassumption].
Qed.

Lemma runs_merge_kids cs : forall acc cont s (Q : state -> Prop), G s -> allk (hp s) cs KStack ->
  (forall h' l' lg' gs,
     G (mkState h' (files s) (regs s) (handles s) l' (leaked s) lg' (ct s)) ->
     grow (hp s) h' -> hsplit l' gs (hand s) -> allhas h' gs KStack false ->
     runs (cont (acc ++ gs)) (mkState h' (files s) (regs s) (handles s) l' (leaked s) lg' (ct s)) Q) ->
  runs (merge_kids cs acc cont) s Q.
Proof.
  induction cs as [|c r IH]; intros acc cont s Q HG A K; destruct s as [h fs rg hs l lk lg c0];
    simpl merge_kids; norm.
  - rewrite <- (app_nil_r acc). apply K; auto. apply grow_refl.
    intro x. rewrite cn_nil. lia. apply allhas_nil.
  - assert (Hc : hask h c KStack) by (apply A; left; reflexivity).
    assert (A' : allk h r KStack) by (intros x Hx; apply A; right; exact Hx).
    rstep. rstep. rstep.
    + rstep. rstep. rstep. apply IH; auto. intros h2 l2 lg2 gs HG2 Hgr2 Hs2 Hgs. norm.
      rewrite <- app_assoc. simpl app. apply K; auto.
      * grow_tac.
      * hand_le.
      * intros x [<-|Hx]; [|apply Hgs; exact Hx]. eapply has_kext; [apply grow_kext; exact Hgr2|eassumption].
    + rstep. rstep. rstep. apply IH; auto. intros h2 l2 lg2 gs HG2 Hgr2 Hs2 Hgs. norm.
      rewrite <- app_assoc. simpl app. apply K; auto.
      * grow_tac.
      * hand_le.
      * intros x [<-|Hx]; [|apply Hgs; exact Hx]. eapply has_kext; [apply grow_kext; exact Hgr2|eassumption].
Qed.

Lemma runs_build_kids n : forall i f acc cont s (Q : state -> Prop), G s -> okind (hp s) f KFooter ->
  (forall h' fs' l' lg' ks,
     G (mkState h' fs' (regs s) (handles s) l' (leaked s) lg' (ct s)) ->
     kext (hp s) h' -> hsplit l' ks (hand s) -> allhas h' ks KStack false ->
     runs (cont (acc ++ ks)) (mkState h' fs' (regs s) (handles s) l' (leaked s) lg' (ct s)) Q) ->
  runs (build_kids n i f acc cont) s Q.
Proof.
  induction n as [|n IH]; intros i f acc cont s Q HG Ho K; destruct s as [h fs rg hs l lk lg c];
    simpl build_kids; norm.
  - rewrite <- (app_nil_r acc). apply K; auto. apply kext_refl.
    intro x. rewrite cn_nil. lia. apply allhas_nil.
  - assert (Fin : forall h2 fs2 lg2 n0 l1, kext h h2 -> has h2 n0 KStack false ->
              hsplit l1 [n0] l ->
              G (mkState h2 fs2 rg hs l1 lk lg2 c) -> okind h2 f KFooter ->
              runs (build_kids n (S i) f (acc ++ [n0]) cont) (mkState h2 fs2 rg hs l1 lk lg2 c) Q).
    { intros h2 fs2 lg2 n0 l1 Kx Hn Hs HG2 Ho2. apply IH; auto.
      intros h3 fs3 l3 lg3 ks HG3 Kx3 Hs3 Hks. norm. rewrite <- app_assoc. simpl app. apply K; auto.
      - kext_tac.
      - hand_le.
      - intros x [<-|Hx]; [|apply Hks; exact Hx]. eapply has_kext; eauto. }
    rstep. rstep. destruct f as [fo|]; norm.
    + rstep.
      * rstep. rstep. rstep. rstep.
        -- rstep. rstep. eapply Fin; eauto; [kext_tac|hand_le].
        -- rstep. rstep. rstep. eapply Fin; eauto; [kext_tac|hand_le].
      * rstep. eapply Fin; eauto; [kext_tac|hand_le].
    + rstep. eapply Fin; eauto; [kext_tac|hand_le].
Qed.

Lemma runs_snapshot_build cont s (Q : state -> Prop) : G s ->
  (forall h' fs' l' lg' rv,
     G (mkState h' fs' (regs s) (handles s) (rv :: l') (leaked s) lg' (ct s)) ->
     kext (hp s) h' -> hbal l' [] (hand s) -> has h' rv KStack true ->
     runs (cont rv) (mkState h' fs' (regs s) (handles s) (rv :: l') (leaked s) lg' (ct s)) Q) ->
  runs (snapshot_build cont) s Q.
Proof.
  intros HG K. destruct s as [h fs rg hs l lk lg c]. norm. unfold snapshot_build.
  rstep. rstep. rstep.
  - rstep. rstep. rstep.
    match goal with
    | |- runs (build_kids _ _ (first_ref ?w ?s) _ _) _ _ =>
        let E0 := fresh "E" in destruct (first_ref w s) as [f0|] eqn:E0; [derive E0|]
    end.
    + apply runs_build_kids; [assumption|norm; assumption|].
      intros h2 fs2 l2 lg2 ks HG2 Kx Hs2 Hks. norm. tr_kext Kx. rstep.
      apply K; auto; [kext_tac|hand_le].
    + apply runs_build_kids; [assumption|exact I|].
      intros h2 fs2 l2 lg2 ks HG2 Kx Hs2 Hks. norm. tr_kext Kx. rstep.
      apply K; auto; [kext_tac|hand_le].
  - apply runs_build_kids; [assumption|exact I|].
    intros h2 fs2 l2 lg2 ks HG2 Kx Hs2 Hks. norm. tr_kext Kx. rstep.
    apply K; auto; [kext_tac|hand_le].
Qed.

(* steps that are loops *)
Ltac rstepL :=
  norm; rewrite_known; norm;
  lazymatch goal with
  | |- runs (snapshot_build ?cont) ?s _ =>
      withG ltac:(fun HG =>
        apply (runs_snapshot_build cont s _ HG);
        let Kx := fresh "Kx" in let HG' := fresh "HG" in let Hb := fresh "Hb" in
        let Hh := fresh "Hhas" in let Hk := fresh "Hk" in
        intros ? ? ? ? ? HG' Kx Hb Hh; norm; tr_kext Kx;
        pose proof (has_hask _ _ _ _ Hh) as Hk; clear HG)
  | |- runs (plain_kids ?n ?acc ?cont) ?s _ =>
      withG ltac:(fun HG =>
        apply (runs_plain_kids n acc cont s _ HG);
        let Hgr := fresh "Hgr" in let HG' := fresh "HG" in let Hs := fresh "Hs" in
        let Hks := fresh "Hks" in
        intros ? ? ? HG' Hgr Hs Hks; norm; tr_grow Hgr; clear HG)
  | |- runs (merge_kids ?cs ?acc ?cont) ?s _ =>
      withG ltac:(fun HG =>
        apply (runs_merge_kids cs acc cont s _ HG);
        [ norm; try solve [allk_tac]
        | let Hgr := fresh "Hgr" in let HG' := fresh "HG" in let Hs := fresh "Hs" in
          let Hks := fresh "Hks" in
          intros ? ? ? ? HG' Hgr Hs Hks; norm; tr_grow Hgr; clear HG ])
  | |- runs (load_kids ?tags ?i ?oldf ?keep ?nnew ?fr ?acc ?cont) ?s _ =>
      withG ltac:(fun HG =>
        apply (runs_load_kids tags i oldf keep nnew fr acc cont s _ HG);
        [ try solve [live_tac]
        | norm; try solve [hask_tac]
        | norm; try solve [exact I | hask_tac]
        | let Hgr := fresh "Hgr" in let HG' := fresh "HG" in let Hs := fresh "Hs" in
          let Hks := fresh "Hks" in
          intros ? ? ? ? HG' Hgr Hs Hks; norm; tr_grow Hgr; clear HG ])
  | |- runs (load_footer ?top ?old ?nnew ?fr ?ks ?tag ?cont) ?s _ =>
      withG ltac:(fun HG =>
        apply (runs_load_footer top old nnew fr ks tag cont s _ HG);
        [ norm; try solve [alllive_tac]
        | norm; try solve [allk_tac]
        | try solve [live_tac]
        | norm; try solve [hask_tac]
        | norm; try solve [allhas_tac]
        | try solve [left; reflexivity | right; reflexivity]
        | norm; try solve [hand_le]
        | let Hgr := fresh "Hgr" in let HG' := fresh "HG" in let Hs := fresh "Hs" in
          let Hh := fresh "Hhas" in let Hk := fresh "Hk" in
          intros ? ? ? ? HG' Hgr Hs Hh; norm; tr_grow Hgr;
          pose proof (has_hask _ _ _ _ Hh) as Hk; clear HG ])
  | |- runs (check (none_at ?l)) _ _ =>
      apply runs_check;
      [ norm; unfold none_at, coll_slots;
        cbn [forallb regs rset slot_eqb]; rewrite_known; try reflexivity | ]
  | |- runs (rd (first_ref ?b) _) ?s _ =>
      withG ltac:(fun HG =>
        try match goal with
            | Hb : hask _ b KStack |- _ =>
                let H1 := fresh "Hho" in
                pose proof (holds_of s b KStack HG Hb) as H1;
                rewrite (refs_olist s b HG Hb) in H1
            end);
      apply runs_rd; cbv beta
  | |- runs (rd (refs_of ?f) _) ?s _ =>
      withG ltac:(fun HG =>
        try match goal with
            | Hf : hask _ f ?k |- _ =>
                let H1 := fresh "Hho" in let H2 := fresh "Hak" in
                pose proof (holds_of s f k HG Hf) as H1;
                pose proof (proj1 (refs_facts s f k HG Hf)) as H2; cbn [ref_kind] in H2
            end);
      apply runs_rd; cbv beta
  | |- runs (setrm ?o) ?s _ =>
      withG ltac:(fun HG =>
        apply (runs_setrm o s _ HG);
        [ norm; try solve [eapply hask_exists; eassumption]
        | let Hgr := fresh "Hgr" in let HG' := fresh "HG" in
          intros ? HG' Hgr; norm; tr_grow Hgr; clear HG ])
  | |- runs (ll_iter _ _) _ _ => unfold ll_iter
  | |- runs (start_or_reuse _) _ _ => unfold start_or_reuse
  | |- _ => rstep
  end.
Ltac go := repeat rstepL.
Ltac gof := go; try fin.

(* refreshChildLLSnapshots: the child stack c of the new base b gets a new
   lower level, the previous one is closed *)
Lemma refresh_tail c rs prev kc b rsb ksb s (Q : state -> Prop) : G s ->
  regs s SBase = Some b -> holds (hp s) b rsb ksb -> In c ksb -> hask (hp s) b KStack ->
  holds (hp s) c (olist prev) kc -> hle rs (hand s) -> allk (hp s) rs KWrap -> length rs <= 1 ->
  (forall h' fs' l' lg',
     G (mkState h' fs' (regs s) (handles s) l' (leaked s) lg' (ct s)) ->
     kext (hp s) h' -> holds h' b rsb ksb -> hsplit (hand s) rs l' ->
     Q (mkState h' fs' (regs s) (handles s) l' (leaked s) lg' (ct s))) ->
  runs (setrefs c rs ;; odecref prev) s Q.
Proof.
  intros HG Eb Hb Hc Hkb Hhc Hle Hk Hl K. destruct s as [h fs rg hs l lk lg c0]. norm.
  destruct (holds_kid _ b rsb ksb c KStack HG Hb Hc Hkb) as [Hck [Hcl Hcb]].
  assert (RA : refs_at h c = olist prev).
  { destruct Hhc as [ob [E [A _]]]. unfold refs_at. rewrite E. exact A. }
  apply runs_bind.
  apply (runs_setrefs c rs _ _ HG); norm; auto.
  { eapply has_hask; eauto. }
  intros h1 l1 HG1 Kx1 Hne Hlen Hs1. norm. rewrite RA in *.
  assert (Hb1 : holds h1 b rsb ksb) by (eapply holds_other; eauto).
  unfold odecref. destruct prev as [p|]; norm.
  - rstep. apply K; auto; [kext_tac|hand_le].
  - apply runs_ret. apply K; auto.
Qed.

Lemma runs_refresh_kids cs : forall i f b rsb ksb s (Q : state -> Prop), G s ->
  regs s SBase = Some b -> holds (hp s) b rsb ksb -> incl cs ksb -> hask (hp s) b KStack ->
  okind (hp s) f KFooter ->
  (forall h' fs' l' lg',
     G (mkState h' fs' (regs s) (handles s) l' (leaked s) lg' (ct s)) ->
     kext (hp s) h' -> hbal l' [] (hand s) ->
     Q (mkState h' fs' (regs s) (handles s) l' (leaked s) lg' (ct s))) ->
  runs (refresh_kids cs i f) s Q.
Proof.
  induction cs as [|c r IH]; intros i f b rsb ksb s Q HG Eb Hb Hin Hkb Hf K;
    destruct s as [h fs rg hs l lk lg c0]; simpl refresh_kids; norm.
  - apply runs_ret. apply K; auto. apply kext_refl. intro x. rewrite cn_nil. lia.
  - assert (Hin' : incl r ksb) by (intros x Hx; apply Hin; right; exact Hx).
    assert (Hc : In c ksb) by (apply Hin; left; reflexivity).
    assert (Rest : forall h2 fs2 l2 lg2, G (mkState h2 fs2 rg hs l2 lk lg2 c0) -> kext h h2 ->
                   holds h2 b rsb ksb -> hbal l2 [] l ->
                   runs (refresh_kids r (S i) f) (mkState h2 fs2 rg hs l2 lk lg2 c0) Q).
    { intros h2 fs2 l2 lg2 HG2 Kx Hb2 Hbal. apply (IH (S i) f b rsb ksb); norm; auto.
      - eapply hask_kext; eauto.
      - eapply okind_kext; eauto.
      - intros h3 fs3 l3 lg3 HG3 Kx3 Hbal3. norm. apply K; auto; [kext_tac|hand_le]. }
    destruct (holds_kid _ b rsb ksb c KStack HG Hb Hc Hkb) as [Hck [Hcl Hcb]].
    pose proof (has_hask _ _ _ _ Hck) as Hck'.
    pose proof (holds_of _ c KStack HG Hck') as Hhc. rewrite (refs_olist _ c HG Hck') in Hhc.
    apply runs_bind. apply runs_rd. cbv beta.
    match goal with |- runs (if ?x then _ else _) _ _ => destruct x end;
      [|apply runs_ret; apply Rest; auto; [apply kext_refl|intro x; rewrite cn_nil; lia]].
    apply runs_rd. cbv beta. apply runs_rd. cbv beta. apply runs_rd. cbv beta. norm.
    assert (Tail0 : runs (setrefs c [];; odecref (first_ref c (mkState h fs rg hs l lk lg c0)))
                         (mkState h fs rg hs l lk lg c0)
                         (fun s1 => runs (refresh_kids r (S i) f) s1 Q)).
    { eapply (refresh_tail c [] _ _ b rsb ksb); norm; eauto.
      - intro x. rewrite cn_nil. lia.
      - apply allk_nil.
      - intros h1 fs1 l1 lg1 HG1 Kx1 Hb1 Hs1. norm. apply Rest; auto. hand_le. }
    destruct f as [fo|]; norm; [|exact Tail0].
    destruct (nth_error (kids_of fo _) i) as [cf|] eqn:Ecf; [|exact Tail0].
    derive Ecf. rstep. rstep. rstep. rstep.
    + (* a new wrapper of the child footer *)
      rstep.
      match goal with HGc : G (mkState ?h2 _ _ _ _ _ _ _) |- _ =>
        eapply (refresh_tail c _ _ _ b rsb ksb); norm; eauto end.
      * hand_le.
      * apply allk_one. assumption.
      * intros h3 fs3 l3 lg3 HG3 Kx3 Hb3 Hs3. norm. apply Rest; auto; [kext_tac|hand_le].
    + (* a prior incarnation: the child footer is closed again *)
      rstep. rstep.
      match goal with
      | HGc : G (mkState ?h2 _ _ _ _ _ _ _), Hd : dec ?h1 ?h2, Hb2 : holds ?h2 b rsb ksb |- _ =>
          destruct (holds_kid _ b rsb ksb c KStack HGc Hb2 Hc ltac:(assumption)) as [_ [Hcl2 _]];
          apply (holds_dec _ _ _ _ _ Hd Hcl2) in Hhc
      end.
      eapply (refresh_tail c [] _ _ b rsb ksb); norm; eauto.
      * hand_le.
      * apply allk_nil.
      * intros h3 fs3 l3 lg3 HG3 Kx3 Hb3 Hs3. norm. apply Rest; auto; [kext_tac|hand_le].
Qed.

Lemma holds_refs_at h a rs ks : holds h a rs ks -> refs_at h a = rs.
Proof. intros [ob [E [A _]]]. unfold refs_at. rewrite E. exact A. Qed.

Ltac do_setrefs :=
  match goal with
  | |- runs (setrefs ?b ?rs) ?s _ =>
      withG ltac:(fun HG =>
        match goal with
        | Hho : holds _ b ?rb _ |- _ =>
            apply (runs_setrefs b rs s _ HG); norm;
            [ try solve [live_tac] | try solve [hask_tac] | try solve [hand_le]
            | try solve [allk_tac] | try solve [simpl; lia]
            | let Kx := fresh "Kx" in let HG' := fresh "HG" in let Hne := fresh "Hne" in
              let Hs := fresh "Hs" in
              intros ? ? HG' Kx Hne _ Hs; norm; rewrite (holds_refs_at _ _ _ _ Hho) in *; norm;
              tr_kext Kx; clear HG ]
        end)
  end.
