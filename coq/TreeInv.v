(* TreeInv.v — definitions for the end-to-end theorems about the tree model:
   the combined system "collection + store" over an arbitrary merge operator
   (cst, clabel, cstep, crun, cinit; crun_pre_fix is the same system with the
   hand-over as it was before the repair of finding F28), batch
   well-formedness (tb_distinct: distinct child names per batch node),
   selections of the live child of a section (sel, fsel), reading a stack
   tree as a reference tree (reads_as), reading a footer tree on its own
   (fn_reads_mod), paths (ss_at, rt_at).  Definitions only; the proofs are in
   TreeInvFacts.v.  Nothing here is extracted. *)
From Coq Require Import List NArith Bool.
From Moss Require Import Bytes Segment Stack Collection Store Tree TreeColl.
Import ListNotations.

(* ---- selections -------------------------------------------------------- *)
Definition osegs (o : option sstack) : list segment :=
  match o with Some s => ss_segs s | None => [] end.
Definition okids (o : option sstack) : list (cname * sstack) :=
  match o with Some s => ss_kids s | None => [] end.

(* the child named n of a section, if it belongs to incarnation i *)
Definition sel (n : cname) (i : N) (o : option sstack) : option sstack :=
  match o with
  | Some s => match assoc n (ss_kids s) with
              | Some c => if N.eqb (ss_incar c) i then Some c else None
              | None => None end
  | None => None
  end.
Definition fsel (n : cname) (i : N) (o : option fnode) : option fnode :=
  match o with
  | Some f => match assoc n (fn_kids f) with
              | Some y => if N.eqb (fn_incar y) i then Some y else None
              | None => None end
  | None => None
  end.

Definition osecs (os : list (option sstack)) : list sstack := concat (map olist1 os).

(* ---- batch well-formedness ---------------------------------------------- *)
(* child names inside one batch node are distinct (a Go map), at every depth *)
Fixpoint tb_distinct (b : tbatch) : bool :=
  match b with
  | TB _ bkids =>
      uniq_keys (map fst bkids) &&
      (fix all (l : list (cname * option tbatch)) : bool :=
         match l with
         | [] => true
         | (_, Some c) :: r => tb_distinct c && all r
         | (_, None) :: r => all r
         end) bkids
  end.

Definition tb_good (b : tbatch) : bool := tb_distinct b.

(* ---- the combined system: collection + store ---------------------------- *)
Record cst := {
  c_t : tstate;                 (* the collection *)
  c_pend : option fnode;        (* the footer a running persistence round will publish *)
  c_store : fnode               (* the store's current footer *)
}.

Inductive clabel :=
| CBatch (b : tbatch)
| CIngest
| CSwap (t : lvltree)
| CHandover
| CPBegin (ch : persist_choice)
| CPBeginFail
| CPPublish
| CSnap.

Definition fnode_empty : fnode := FN [] 0 [].

Definition cinit (c : cfg) : cst :=
  {| c_t := tinit (CN 0 0 []) (if has_ll c then Some fnode_empty else None);
     c_pend := None; c_store := fnode_empty |}.

Section WithMerge.
  Variable fm : bytes -> value -> bytes -> value.

  Definition clift (r : cst) (o : option tstate) : option cst :=
    match o with
    | Some s => Some {| c_t := s; c_pend := c_pend r; c_store := c_store r |}
    | None => None
    end.

  Definition c_update (r : cst) (ch : persist_choice) : option fnode :=
    match t_base (c_t r) with
    | Some b => tree_persist fm ch b (c_store r)
    | None => None
    end.

  (* mirrors TreeRun.trstep, over fm, without the harness-only fields *)
  Definition cstep (c : cfg) (r : cst) (l : clabel) : option cst :=
    match l with
    | CBatch b => clift r (tstep fm c (c_t r) (TBatch b))
    | CIngest => clift r (tstep fm c (c_t r) TIngest)
    | CSwap t => clift r (tstep fm c (c_t r) (TSwap t))
    | CHandover => clift r (tstep fm c (c_t r) THandover)
    | CPBegin ch =>
        match tstep fm c (c_t r) TPBegin, c_update r ch with
        | Some s, Some f' => Some {| c_t := s; c_pend := Some f'; c_store := f' |}
        | _, _ => None
        end
    | CPBeginFail =>
        match tstep fm c (c_t r) TPBegin with
        | Some s => clift r (tstep fm c s TPFail)
        | None => None
        end
    | CPPublish =>
        match c_pend r with
        | Some f' =>
            match tstep fm c (c_t r) (TPPublish f') with
            | Some s => Some {| c_t := s; c_pend := None; c_store := c_store r |}
            | None => None
            end
        | None => None
        end
    | CSnap => clift r (tstep fm c (c_t r) TSnap)
    end.

  (* the hand-over as it was before the repair of finding F28: only the ROOT
     of the handed-over stack gets the current lower-level snapshot *)
  Definition handover_pre_fix (c : cfg) (s : tstate) : option tstate :=
    if t_closed s then None else
    match t_merger s with
    | TMSwapped =>
        match t_base s, t_mid s with
        | None, Some m =>
            if has_ll c then
              Some {| t_coll := t_coll s; t_top := t_top s; t_mid := None;
                      t_base := Some (set_llcap m (t_ll s)); t_clean := t_clean s;
                      t_ll := t_ll s; t_merger := TMIdle; t_persister := t_persister s;
                      t_cached := t_cached s; t_closed := false |}
            else
              Some {| t_coll := t_coll s; t_top := t_top s; t_mid := t_mid s; t_base := t_base s;
                      t_clean := t_clean s; t_ll := t_ll s; t_merger := TMIdle;
                      t_persister := t_persister s; t_cached := t_cached s; t_closed := false |}
        | _, _ =>
            Some {| t_coll := t_coll s; t_top := t_top s; t_mid := t_mid s; t_base := t_base s;
                    t_clean := t_clean s; t_ll := t_ll s; t_merger := TMIdle;
                    t_persister := t_persister s; t_cached := t_cached s; t_closed := false |}
        end
    | _ => None
    end.
  Definition cstep_pre_fix (c : cfg) (r : cst) (l : clabel) : option cst :=
    match l with
    | CHandover => clift r (handover_pre_fix c (c_t r))
    | _ => cstep c r l
    end.
  Fixpoint crun_pre_fix (c : cfg) (r : cst) (ls : list clabel) : option cst :=
    match ls with
    | [] => Some r
    | l :: q => match cstep_pre_fix c r l with Some r' => crun_pre_fix c r' q | None => None end
    end.

  Fixpoint crun (c : cfg) (r : cst) (ls : list clabel) : option cst :=
    match ls with
    | [] => Some r
    | l :: q => match cstep c r l with Some r' => crun c r' q | None => None end
    end.

  Fixpoint cbatches (ls : list clabel) : list tbatch :=
    match ls with
    | [] => []
    | CBatch b :: r => b :: cbatches r
    | _ :: r => cbatches r
    end.

  Definition ref_tree (bs : list tbatch) : rtree := fold_left rt_apply bs (RT [] []).

  (* ---- reading a stack tree as a reference tree -------------------------- *)
  Inductive reads_as : sstack -> rtree -> Prop :=
  | RA s r :
      (forall k, ss_get fm s k = rt_get fm r k) ->
      (forall n, In n (map fst (ss_kids s)) <-> In n (map fst (rt_kids r))) ->
      (forall n cs cr, assoc n (ss_kids s) = Some cs -> assoc n (rt_kids r) = Some cr ->
                       reads_as cs cr) ->
      reads_as s r.

  (* the footer tree on its own, up to the existence of EMPTY child collections:
     every child footer belongs to a child of the reference and reads as it;
     a child of the reference without a footer holds no key at any depth *)
  Inductive rt_empty : rtree -> Prop :=
  | RE r :
      (forall k, rt_get fm r k = None) ->
      (forall n cr, assoc n (rt_kids r) = Some cr -> rt_empty cr) ->
      rt_empty r.

  Inductive fn_reads_mod : fnode -> rtree -> Prop :=
  | FRM f r :
      (forall k, sget fm (fn_segs f) no_below k = rt_get fm r k) ->
      (forall n cf, assoc n (fn_kids f) = Some cf -> assoc n (rt_kids r) <> None) ->
      (forall n cf cr, assoc n (fn_kids f) = Some cf -> assoc n (rt_kids r) = Some cr ->
                       fn_reads_mod cf cr) ->
      (forall n cr, assoc n (fn_kids f) = None -> assoc n (rt_kids r) = Some cr -> rt_empty cr) ->
      fn_reads_mod f r.
End WithMerge.

(* ---- paths ---------------------------------------------------------------- *)
Fixpoint ss_at (s : sstack) (p : list cname) : option sstack :=
  match p with
  | [] => Some s
  | n :: q => match assoc n (ss_kids s) with Some c => ss_at c q | None => None end
  end.
Fixpoint rt_at (t : rtree) (p : list cname) : option rtree :=
  match p with
  | [] => Some t
  | n :: q => match assoc n (rt_kids t) with Some c => rt_at c q | None => None end
  end.
