(* LowerLevel.v — an application lower level driven by the documented
   write-back protocol: iterate the handed-down snapshot with deletions while
   skipping the lower level; Set/Del applied; Merge resolved with higher.Get.
   The lower level's content is one Set-only segment (a sorted map). *)
From Moss Require Export Collection.

Section WithMerge.
  Variable fm : bytes -> value -> bytes -> value.

  Definition map_get (m : segment) (k : bytes) : value :=
    match find m k with Some (OSet v) => Some v | _ => None end.

  (* what one protocol step leaves for key k *)
  Definition proto_value (higher : list segment) (m : segment) (k : bytes) : value :=
    match newest higher k with
    | None => map_get m k
    | Some (OSet v) => Some v
    | Some ODel => None
    | Some (OMerge _) => sget fm higher (map_get m) k      (* higher.Get(key) *)
    end.

  Fixpoint build_map (higher : list segment) (m : segment) (ks : list bytes) : segment :=
    match ks with
    | [] => []
    | k :: r => match proto_value higher m k with
                | Some v => (k, OSet v) :: build_map higher m r
                | None => build_map higher m r
                end
    end.

  Definition map_update (higher : list segment) (m : segment) : segment :=
    build_map higher m (kunion (all_keys higher) (kunion (keys m) [])).

  (* the sequence of operations the protocol sees (offered), in key order *)
  Definition offered (higher : list segment) : segment :=
    merge_range false true higher (fun _ => None).
End WithMerge.
