From Coq Require Import List NArith Bool Lia Arith.
From Moss Require Import Faults.

(* Every statement below is for an ARBITRARY failure oracle fail : nat -> bool
   (any single operation failing, any burst, failures persisting to the end of
   the round).  A round has at most 8 operations, so its outcome depends on
   fail 0 .. fail 7 only (run_round_vec); each of the 2^8 patterns is then
   decided by computation. *)

Lemma run_ops_ext f g : forall ops i full o,
  (forall j, i <= j < i + length ops -> f j = g j) ->
  run_ops f i ops full o = run_ops g i ops full o.
Proof.
  induction ops as [|op r IH]; intros i full o H; simpl; auto.
  rewrite (H i) by (simpl; lia).
  destruct (g i && match op with OSwapFooter => false | ORemoveOld => false | _ => true end); auto.
  apply IH. intros j Hj. apply H. simpl. lia.
Qed.

Definition vec (f : nat -> bool) : nat -> bool :=
  fun i => nth i [f 0; f 1; f 2; f 3; f 4; f 5; f 6; f 7] false.

Lemma run_round_vec fail k : run_round fail k = run_round (vec fail) k.
Proof.
  unfold run_round. apply run_ops_ext. intros j Hj.
  assert (j < 8) by (destruct k; simpl in Hj; lia).
  unfold vec. do 8 (destruct j as [|j]; [reflexivity|]). lia.
Qed.

Ltac by_vectors fail k :=
  rewrite (run_round_vec fail k); unfold vec;
  generalize (fail 0), (fail 1), (fail 2), (fail 3), (fail 4), (fail 5), (fail 6), (fail 7);
  intros b0 b1 b2 b3 b4 b5 b6 b7;
  destruct k, b0, b1, b2, b3, b4, b5, b6, b7; vm_compute; intuition congruence.

(* a round that reports success really serves its batches, from a complete footer *)
Theorem success_means_served fail k :
  error (run_round fail k) = false ->
  served_new (run_round fail k) = true /\ new_complete (run_round fail k) = true.
Proof. by_vectors fail k. Qed.

(* a round that does not complete is surfaced, and changes nothing *)
Theorem failure_is_surfaced_and_harmless fail k :
  served_new (run_round fail k) = false ->
  error (run_round fail k) = true /\ old_exists (run_round fail k) = true.
Proof. by_vectors fail k. Qed.

(* no good data file is ever deleted in favour of an incomplete one *)
Theorem old_file_removed_only_after_complete_footer fail k :
  old_exists (run_round fail k) = false ->
  served_new (run_round fail k) = true /\ new_complete (run_round fail k) = true /\
  new_exists (run_round fail k) = true.
Proof. by_vectors fail k. Qed.

(* what is served is always complete *)
Theorem served_footer_is_complete fail k :
  served_new (run_round fail k) = true -> new_complete (run_round fail k) = true.
Proof. by_vectors fail k. Qed.

(* once operations succeed again, the retried round goes through *)
Theorem retry_without_failures_succeeds k :
  served_new (run_round (fun _ => false) k) = true /\ error (run_round (fun _ => false) k) = false.
Proof. destruct k; vm_compute; auto. Qed.
