(* Sync2StallB.v - no-stall theorem for data at rest, merger cases while stackDirtyTop is
   non-empty and stackDirtyBase is empty: the merger is brought to its ingest (checked in
   parallel with C) *)
From Coq Require Import List Arith Bool Lia.
Import ListNotations.
From Moss Require Import Sync2 Sync2Facts Sync2ProgressA Sync2Progress Sync2StallA.

Section StallB.
Variable c : config.
Hypothesis cap_pos : 1 <= c_cap c.
Hypothesis qcap_pos : 1 <= c_qcap c.

Lemma g_top_MReply s : gctx c s -> z_base s = false -> (0 <? z_top s) = true -> z_mp s = MReply -> ggoal c s.
Proof.
  gintro. intros Hb Ht Emp. unfold ggoal.
  take c s LMReply; dd gdec.
Qed.

Lemma g_top_MCheck s : gctx c s -> z_base s = false -> (0 <? z_top s) = true -> z_mp s = MCheck -> ggoal c s.
Proof.
  gintro. intros Hb Ht Emp. unfold ggoal.
  take c s LMCheck; dd gdec.
Qed.

Lemma g_top_MSelect s : gctx c s -> z_base s = false -> (0 <? z_top s) = true -> z_mp s = MSelect -> ggoal c s.
Proof.
  gintro. intros Hb Ht Emp. unfold ggoal.
  assert (Ei : z_incc s = true).
  { b2p. destruct (z_incc s) eqn:Ei; auto. exfalso.
    destruct (z_armed s) eqn:Ea; sat; lia. }
  take c s LMSelInc; dd gdec.
Qed.

Lemma g_top_MDrain s : gctx c s -> z_base s = false -> (0 <? z_top s) = true -> z_mp s = MDrain -> ggoal c s.
Proof.
  gintro. intros Hb Ht Emp. unfold ggoal.
  take c s LMDrain; dd gdec.
Qed.

Lemma g_top_MIngest s : gctx c s -> z_base s = false -> (0 <? z_top s) = true -> z_mp s = MIngest -> ggoal c s.
Proof.
  gintro. intros Hb Ht Emp. unfold ggoal.
  take c s LMIngest; dd gdec.
Qed.

Lemma g_top_MMerge s : gctx c s -> z_base s = false -> (0 <? z_top s) = true -> z_mp s = MMerge -> ggoal c s.
Proof.
  gintro. intros Hb Ht Emp. unfold ggoal.
  take c s LMMergeOk; dd gdec.
Qed.

Lemma g_top_MHandover s : gctx c s -> z_base s = false -> (0 <? z_top s) = true -> z_mp s = MHandover -> ggoal c s.
Proof.
  gintro. intros Hb Ht Emp. unfold ggoal.
  take c s LMHandover; dd gdec.
Qed.

Lemma g_top_MWaitOut s g : gctx c s -> z_base s = false -> (0 <? z_top s) = true -> z_mp s = MWaitOut g -> ggoal c s.
Proof.
  gintro. intros Hb Ht Emp. unfold ggoal.
  destruct (z_oready s) eqn:Er.
  { take c s LMOutWake; dd gdec. }
  assert (Epp : z_pp s = PCloseOut (Some g)).
  { destruct I as (I1&I2&I3&I3b&I4&I4b&I5&I6&I7&J1&J1b&J2&J3&J4&J5a&J5b&J5c&I9a&I9b&I10&I11&I12).
    apply (J2 g Emp eq_refl). intros Eo.
    assert (z_base s = true); [|congruence].
    apply J3; [congruence|]. rewrite (I9b Cl). discriminate. }
  exists LPCloseOut, (set_pp PTop (set_oready true s)). split; [reflexivity|]. split.
  { unfold step, step_gen. rewrite Epp, Emp, Nat.eqb_refl. reflexivity. }
  unfold mu_g, dIn, dHo, ow, dPb; zs.
  rewrite ?Emp, ?Er, ?Hb, ?Ht, ?Hm, ?Nat.ltb_irrefl. cbv beta iota. destruct (z_mid s); lia.
Qed.
End StallB.
