(* CodecFacts.v — proofs about Codec.v. *)
From Coq Require Import ZArith NArith List Bool Lia ZifyN ZifyNat.
From Moss Require Import Bytes BytesFacts Segment Codec.
Ltac Zify.zify_post_hook ::= Z.div_mod_to_equations.
Open Scope N_scope.

Arguments N.mul : simpl never.
Arguments N.add : simpl never.
Arguments N.sub : simpl never.
Arguments N.div : simpl never.
Arguments N.modulo : simpl never.
Arguments N.pow : simpl never.
Arguments N.shiftl : simpl never.
Arguments N.shiftr : simpl never.
Arguments N.land : simpl never.
Arguments N.lor : simpl never.

(* ------------------------------------------------------------------ *)
(* The constants are what the comments in segment.go say they are.     *)

Lemma two64_pow : two64 = 2 ^ 64.                Proof. reflexivity. Qed.
Lemma maskValLength_ones : maskValLength = N.ones 28.
Proof. reflexivity. Qed.
Lemma maskKeyLength_ones : maskKeyLength = N.shiftl (N.ones 24) 32.
Proof. reflexivity. Qed.
Lemma maskOperation_ones : maskOperation = N.shiftl (N.ones 4) 56.
Proof. reflexivity. Qed.
Lemma maxKeyLength_pow : maxKeyLength = 2 ^ 24 - 1.   Proof. reflexivity. Qed.
Lemma maxValLength_pow : maxValLength = 2 ^ 28 - 1.   Proof. reflexivity. Qed.
Lemma OperationSet_shift : OperationSet = N.shiftl 1 56.     Proof. reflexivity. Qed.
Lemma OperationDel_shift : OperationDel = N.shiftl 2 56.     Proof. reflexivity. Qed.
Lemma OperationMerge_shift : OperationMerge = N.shiftl 3 56. Proof. reflexivity. Qed.

(* the four masks partition the 64 bits *)
Lemma masks_partition :
  N.lor (N.lor (N.lor maskOperation maskKeyLength) maskValLength) maskRESERVED
    = two64 - 1
  /\ N.land maskOperation maskKeyLength = 0
  /\ N.land maskOperation maskValLength = 0
  /\ N.land maskKeyLength maskValLength = 0
  /\ N.land maskRESERVED (N.lor (N.lor maskOperation maskKeyLength) maskValLength) = 0.
Proof. repeat split; reflexivity. Qed.

(* ------------------------------------------------------------------ *)
(* Bit-field extraction and insertion in arithmetic form.              *)

Lemma land_shifted_ones n k x :
  N.land (N.shiftl (N.ones n) k) x = ((x / 2 ^ k) mod 2 ^ n) * 2 ^ k.
Proof.
  rewrite <- N.shiftl_mul_pow2.
  apply N.bits_inj; intro i.
  rewrite N.land_spec.
  destruct (N.ltb_spec i k) as [Hlt|Hge].
  - rewrite !N.shiftl_spec_low by assumption. reflexivity.
  - rewrite !N.shiftl_spec_high' by assumption.
    destruct (N.ltb_spec (i - k) n) as [Hl|Hh].
    + rewrite N.ones_spec_low by assumption.
      rewrite N.mod_pow2_bits_low by assumption.
      rewrite N.div_pow2_bits. cbn [andb].
      f_equal. lia.
    + rewrite N.ones_spec_high by assumption.
      rewrite N.mod_pow2_bits_high by assumption. reflexivity.
Qed.

Lemma land_disjoint_shift a k b : b < 2 ^ k -> N.land (a * 2 ^ k) b = 0.
Proof.
  intro Hb. rewrite <- N.shiftl_mul_pow2.
  apply N.bits_inj; intro i. rewrite N.land_spec, N.bits_0.
  destruct (N.ltb_spec i k) as [Hlt|Hge].
  - rewrite N.shiftl_spec_low by assumption. reflexivity.
  - rewrite <- (N.mod_small b (2 ^ k)) by assumption.
    rewrite N.mod_pow2_bits_high by assumption. apply andb_false_r.
Qed.

Lemma lor_disjoint_add a b : N.land a b = 0 -> N.lor a b = a + b.
Proof.
  intro H. rewrite <- N.lxor_lor by assumption.
  symmetry. apply N.add_nocarry_lxor. assumption.
Qed.

Lemma lor_shift_add a k b : b < 2 ^ k -> N.lor (a * 2 ^ k) b = a * 2 ^ k + b.
Proof. intro H. apply lor_disjoint_add, land_disjoint_shift, H. Qed.

(* field extraction, as decodeOpKeyLenValLen performs it *)
Lemma op_field w : N.land maskOperation w = ((w / 2 ^ 56) mod 2 ^ 4) * 2 ^ 56.
Proof. rewrite maskOperation_ones. apply land_shifted_ones. Qed.

Lemma key_field w : N.shiftr (N.land maskKeyLength w) 32 = (w / 2 ^ 32) mod 2 ^ 24.
Proof.
  rewrite maskKeyLength_ones, land_shifted_ones, N.shiftr_div_pow2.
  apply N.div_mul. discriminate.
Qed.

Lemma val_field w : N.land maskValLength w = w mod 2 ^ 28.
Proof. rewrite maskValLength_ones, N.land_comm. apply N.land_ones. Qed.

Lemma pow_consts :
  2 ^ 4 = 16 /\ 2 ^ 24 = 16777216 /\ 2 ^ 28 = 268435456 /\ 2 ^ 32 = 4294967296
  /\ 2 ^ 56 = 72057594037927936 /\ 2 ^ 64 = 18446744073709551616.
Proof. repeat split; reflexivity. Qed.

Ltac pow_norm :=
  destruct pow_consts as (P4 & P24 & P28 & P32 & P56 & P64);
  rewrite ?P4, ?P24, ?P28, ?P32, ?P56, ?P64 in *.

(* the encoded word as a sum of three disjoint fields *)
Lemma key_shift_wrap kl :
  (((kl mod two64) * 2 ^ 32) mod two64 / 2 ^ 32) mod 2 ^ 24 = kl mod 2 ^ 24.
Proof. unfold two64. pow_norm. lia. Qed.

Lemma mod_pow2_mod a n m : n <= m -> (a mod 2 ^ m) mod 2 ^ n = a mod 2 ^ n.
Proof.
  intro H. replace m with (n + (m - n)) by lia.
  rewrite N.pow_add_r, N.mod_mul_r by (apply N.pow_nonzero; discriminate).
  rewrite N.mul_comm, N.mod_add by (apply N.pow_nonzero; discriminate).
  apply N.mod_mod. apply N.pow_nonzero; discriminate.
Qed.

Lemma val_wrap vl : (vl mod two64) mod 2 ^ 28 = vl mod 2 ^ 28.
Proof. rewrite two64_pow. apply mod_pow2_mod. lia. Qed.

Lemma key_part_bound kl : (kl mod 2 ^ 24) * 2 ^ 32 < 2 ^ 56.
Proof. pow_norm. lia. Qed.

Lemma val_part_bound vl : vl mod 2 ^ 28 < 2 ^ 32.
Proof. pow_norm. lia. Qed.

Lemma regroup o k : o * 2 ^ 56 + k * 2 ^ 32 = (o * 2 ^ 24 + k) * 2 ^ 32.
Proof. pow_norm. lia. Qed.

Lemma encode_arith op kl vl :
  encode op kl vl
  = ((op / 2 ^ 56) mod 2 ^ 4) * 2 ^ 56 + (kl mod 2 ^ 24) * 2 ^ 32 + vl mod 2 ^ 28.
Proof.
  unfold encode, u64. rewrite op_field, val_field.
  rewrite maskKeyLength_ones, land_shifted_ones, N.shiftl_mul_pow2.
  rewrite key_shift_wrap, val_wrap.
  rewrite (lor_shift_add _ 56 _ (key_part_bound kl)).
  rewrite regroup.
  rewrite (lor_shift_add _ 32 _ (val_part_bound vl)). reflexivity.
Qed.

(* What decode gives back for ANY arguments: each field reduced to its width. *)
Theorem decode_encode_general op kl vl :
  decode (encode op kl vl) = (N.land maskOperation op, kl mod 2 ^ 24, vl mod 2 ^ 28).
Proof.
  unfold decode. rewrite op_field, key_field, val_field, (op_field op), encode_arith.
  set (o := (op / 2 ^ 56) mod 2 ^ 4).
  assert (Ho : o < 2 ^ 4) by (apply N.mod_lt; discriminate).
  clearbody o. pow_norm.
  f_equal; [f_equal|].
  - lia.
  - lia.
  - lia.
Qed.

(* ------------------------------------------------------------------ *)
(* C19: the word round-trips exactly within the limits guarded by mutateEx. *)

Definition valid_op_code (c : N) : Prop :=
  c = OperationSet \/ c = OperationDel \/ c = OperationMerge.

Lemma valid_op_code_mask c : valid_op_code c -> N.land maskOperation c = c.
Proof. intros [-> | [-> | ->]]; reflexivity. Qed.

Theorem C19_word_roundtrip op_code key_len val_len :
  key_len <= 2 ^ 24 - 1 -> val_len <= 2 ^ 28 - 1 -> valid_op_code op_code ->
  decode (encode op_code key_len val_len) = (op_code, key_len, val_len).
Proof.
  intros Hk Hv Ho. rewrite decode_encode_general, (valid_op_code_mask _ Ho).
  rewrite !N.mod_small; [reflexivity| |]; pow_norm; lia.
Qed.
Print Assumptions C19_word_roundtrip.

(* the same, phrased with the guard of mutateEx *)
Corollary C19_word_roundtrip_guard op_code key_len val_len :
  mutate_guard key_len val_len = None -> valid_op_code op_code ->
  decode (encode op_code key_len val_len) = (op_code, key_len, val_len).
Proof.
  unfold mutate_guard. intros Hg Ho.
  destruct (N.ltb_spec maxKeyLength key_len) as [|Hk]; [discriminate|].
  destruct (N.ltb_spec maxValLength val_len) as [|Hv]; [discriminate|].
  apply C19_word_roundtrip; trivial; unfold maxKeyLength, maxValLength in *; pow_norm; lia.
Qed.

(* Converse: one past either limit and the word aliases another entry.  (No
   upper bound on the lengths is needed: the field is reduced mod its width.) *)
Theorem C19_word_limit_exact op_code key_len val_len :
  2 ^ 24 <= key_len \/ 2 ^ 28 <= val_len ->
  decode (encode op_code key_len val_len) <> (op_code, key_len, val_len).
Proof.
  intros H E. rewrite decode_encode_general in E.
  injection E as _ Ek Ev.
  assert (key_len mod 2 ^ 24 < 2 ^ 24) by (apply N.mod_lt; discriminate).
  assert (val_len mod 2 ^ 28 < 2 ^ 28) by (apply N.mod_lt; discriminate).
  destruct H; lia.
Qed.
Print Assumptions C19_word_limit_exact.

(* The guard rejects exactly the arguments that do not round-trip. *)
Theorem C19_guard_exact op_code key_len val_len :
  valid_op_code op_code ->
  (mutate_guard key_len val_len = None
   <-> decode (encode op_code key_len val_len) = (op_code, key_len, val_len)).
Proof.
  intro Ho. split.
  - intro Hg. apply C19_word_roundtrip_guard; assumption.
  - intro E. unfold mutate_guard.
    destruct (N.ltb_spec maxKeyLength key_len) as [Hk|Hk].
    + exfalso. apply (C19_word_limit_exact op_code key_len val_len); [|exact E].
      left. unfold maxKeyLength in Hk. pow_norm. lia.
    + destruct (N.ltb_spec maxValLength val_len) as [Hv|Hv]; [|reflexivity].
      exfalso. apply (C19_word_limit_exact op_code key_len val_len); [|exact E].
      right. unfold maxValLength in Hv. pow_norm. lia.
Qed.
Print Assumptions C19_guard_exact.

(* concrete witnesses at the boundary lengths *)
Example C19_key_2_24_aliases_empty_key :
  decode (encode OperationSet 16777216 5) = (OperationSet, 0, 5).
Proof. vm_compute. reflexivity. Qed.
Example C19_key_max_ok :
  decode (encode OperationSet 16777215 5) = (OperationSet, 16777215, 5).
Proof. vm_compute. reflexivity. Qed.
Example C19_val_2_28_aliases_empty_val :
  decode (encode OperationMerge 3 268435456) = (OperationMerge, 3, 0).
Proof. vm_compute. reflexivity. Qed.
Example C19_val_max_ok :
  decode (encode OperationMerge 3 268435455) = (OperationMerge, 3, 268435455).
Proof. vm_compute. reflexivity. Qed.
(* the shift really wraps: a key length of 2^32 vanishes altogether *)
Example C19_key_2_32_wraps :
  decode (encode OperationDel 4294967296 0) = (OperationDel, 0, 0).
Proof. vm_compute. reflexivity. Qed.
(* reserved bits are never set *)
Lemma encode_reserved_clear op kl vl : N.land maskRESERVED (encode op kl vl) = 0.
Proof.
  unfold encode.
  rewrite !N.land_lor_distr_r, !N.land_assoc.
  replace (N.land maskRESERVED maskOperation) with 0 by reflexivity.
  replace (N.land maskRESERVED maskKeyLength) with 0 by reflexivity.
  replace (N.land maskRESERVED maskValLength) with 0 by reflexivity.
  rewrite !N.land_0_l. reflexivity.
Qed.

Lemma encode_lt_two64 op kl vl : encode op kl vl < two64.
Proof.
  rewrite encode_arith.
  assert ((op / 2 ^ 56) mod 2 ^ 4 < 2 ^ 4) by (apply N.mod_lt; discriminate).
  assert (kl mod 2 ^ 24 < 2 ^ 24) by (apply N.mod_lt; discriminate).
  assert (vl mod 2 ^ 28 < 2 ^ 28) by (apply N.mod_lt; discriminate).
  unfold two64. pow_norm. lia.
Qed.

(* Alloc hands out buf[lo:hi], whose cap is cap(buf) - lo; AllocSet recovers lo *)
Lemma alloc_key_start_ok buf_cap lo :
  lo <= buf_cap -> alloc_key_start buf_cap (alloc_slice_cap buf_cap lo) = lo.
Proof. unfold alloc_key_start, alloc_slice_cap. lia. Qed.

(* ------------------------------------------------------------------ *)
(* little-endian integers                                              *)

Lemma le_enc_length n x : length (le_enc n x) = n.
Proof. revert x; induction n as [|n IH]; intro x; cbn [le_enc length]; [reflexivity|]. now rewrite IH. Qed.

Lemma le_enc_all_bytes n x : all_bytes (le_enc n x) = true.
Proof.
  revert x; induction n as [|n IH]; intro x; cbn [le_enc all_bytes forallb]; [reflexivity|].
  fold (all_bytes (le_enc n (x / 256))). rewrite IH, andb_true_r.
  unfold is_byte. apply N.ltb_lt. apply N.mod_lt. discriminate.
Qed.

Lemma le_dec_enc n x : le_dec (le_enc n x) = x mod 256 ^ N.of_nat n.
Proof.
  revert x; induction n as [|n IH]; intro x.
  - cbn [le_enc le_dec]. change (256 ^ N.of_nat 0) with 1. now rewrite N.mod_1_r.
  - cbn [le_enc le_dec]. rewrite IH.
    replace (N.of_nat (S n)) with (N.succ (N.of_nat n)) by lia.
    rewrite N.pow_succ_r'.
    rewrite (N.mod_mul_r x 256 (256 ^ N.of_nat n)); [reflexivity|discriminate|].
    apply N.pow_nonzero. discriminate.
Qed.

Lemma le_dec_enc_small n x : x < 256 ^ N.of_nat n -> le_dec (le_enc n x) = x.
Proof. intro H. rewrite le_dec_enc. now apply N.mod_small. Qed.

Lemma le_dec_bound b : all_bytes b = true -> le_dec b < 256 ^ N.of_nat (length b).
Proof.
  induction b as [|c r IH]; cbn [all_bytes forallb le_dec length]; intro H.
  - reflexivity.
  - apply andb_true_iff in H as [Hc Hr]. unfold is_byte in Hc. apply N.ltb_lt in Hc.
    specialize (IH Hr).
    replace (N.of_nat (S (length r))) with (N.succ (N.of_nat (length r))) by lia.
    rewrite N.pow_succ_r'. set (M := 256 ^ N.of_nat (length r)) in *. clearbody M. nia.
Qed.

Lemma le_enc_dec b : all_bytes b = true -> le_enc (length b) (le_dec b) = b.
Proof.
  induction b as [|c r IH]; cbn [all_bytes forallb le_dec length le_enc]; intro H.
  - reflexivity.
  - apply andb_true_iff in H as [Hc Hr]. unfold is_byte in Hc. apply N.ltb_lt in Hc.
    f_equal.
    + rewrite (N.mul_comm 256), N.mod_add by discriminate. now apply N.mod_small.
    + rewrite (N.mul_comm 256), N.div_add by discriminate.
      rewrite (N.div_small c 256) by assumption. rewrite N.add_0_l. now apply IH.
Qed.

Theorem le_u32_roundtrip x : x < 2 ^ 32 -> le_dec (le_u32 x) = x.
Proof. intro H. apply le_dec_enc_small. exact H. Qed.
Theorem le_u64_roundtrip x : x < 2 ^ 64 -> le_dec (le_u64 x) = x.
Proof. intro H. apply le_dec_enc_small. exact H. Qed.
Theorem le_u32_truncates x : le_dec (le_u32 x) = x mod 2 ^ 32.
Proof. apply le_dec_enc. Qed.
Theorem le_u64_truncates x : le_dec (le_u64 x) = x mod 2 ^ 64.
Proof. apply le_dec_enc. Qed.
Theorem le_u32_roundtrip_bytes b :
  length b = 4%nat -> all_bytes b = true -> le_u32 (le_dec b) = b.
Proof. intros L H. unfold le_u32. rewrite <- L. now apply le_enc_dec. Qed.
Theorem le_u64_roundtrip_bytes b :
  length b = 8%nat -> all_bytes b = true -> le_u64 (le_dec b) = b.
Proof. intros L H. unfold le_u64. rewrite <- L. now apply le_enc_dec. Qed.
Print Assumptions le_u64_roundtrip.
Print Assumptions le_u64_roundtrip_bytes.

(* ------------------------------------------------------------------ *)
(* page alignment                                                      *)

Section PageAlign.
  Variable P : N.
  Hypothesis HP : 0 < P.

  Lemma P_nz : P <> 0.
  Proof. lia. Qed.

  Lemma aligned_iff q : aligned P q <-> exists k, q = k * P.
  Proof.
    unfold aligned. rewrite (N.mod_divide q P P_nz). reflexivity.
  Qed.

  Lemma aligned_0 : aligned P 0.
  Proof. apply aligned_iff. exists 0. lia. Qed.

  Lemma aligned_add q : aligned P q -> aligned P (q + P).
  Proof. rewrite !aligned_iff. intros [k ->]. exists (k + 1). lia. Qed.

  Lemma aligned_sub q : aligned P q -> aligned P (q - P).
  Proof.
    rewrite !aligned_iff. intros [k ->]. exists (k - 1).
    destruct (N.eq_dec k 0) as [->|Hk]; [lia|].
    assert (E : k = (k - 1) + 1) by lia. rewrite E at 1.
    rewrite N.mul_add_distr_r, N.mul_1_l, N.add_sub. reflexivity.
  Qed.

  (* two distinct multiples of P are at least P apart *)
  Lemma aligned_gap a b : aligned P a -> aligned P b -> a < b -> a + P <= b.
  Proof.
    rewrite !aligned_iff. intros [k ->] [j ->] H.
    assert (k < j) by nia. nia.
  Qed.

  Lemma aligned_div_sub q : aligned P q -> 0 < q -> (q - P) / P = q / P - 1 /\ 1 <= q / P.
  Proof.
    rewrite aligned_iff. intros [k ->] Hq.
    assert (1 <= k) by nia.
    rewrite N.div_mul by apply P_nz.
    replace (k * P - P) with ((k - 1) * P) by nia.
    rewrite N.div_mul by apply P_nz. lia.
  Qed.

  Lemma pos_decomp pos : pos = P * (pos / P) + pos mod P /\ pos mod P < P.
  Proof. split; [apply N.div_mod, P_nz | apply N.mod_lt, P_nz]. Qed.

  Ltac dm pos q r :=
    let D := fresh "D" in let L := fresh "L" in
    destruct (pos_decomp pos) as [D L];
    set (q := pos / P) in *; set (r := pos mod P) in *; clearbody q r.

  (* ---- ceil ---- *)
  Lemma ceil_of_aligned pos : aligned P pos -> pageAlignCeil P pos = pos.
  Proof. unfold aligned, pageAlignCeil. intros ->. reflexivity. Qed.

  Lemma ceil_aligned pos : aligned P (pageAlignCeil P pos).
  Proof.
    unfold pageAlignCeil, aligned. dm pos q r. destruct (N.eqb_spec r 0) as [E|E].
    - subst r. rewrite D. rewrite N.add_0_r, N.mul_comm. apply N.mod_mul, P_nz.
    - replace (pos + P - r) with ((q + 1) * P) by nia. apply N.mod_mul, P_nz.
  Qed.

  Lemma ceil_ge pos : pos <= pageAlignCeil P pos.
  Proof.
    unfold pageAlignCeil. dm pos q r. destruct (N.eqb_spec r 0) as [E|E]; lia.
  Qed.

  Lemma ceil_lt pos : pageAlignCeil P pos < pos + P.
  Proof.
    unfold pageAlignCeil. dm pos q r. destruct (N.eqb_spec r 0) as [E|E]; lia.
  Qed.

  Lemma ceil_least pos m : aligned P m -> pos <= m -> pageAlignCeil P pos <= m.
  Proof.
    intros Hm Hle. unfold pageAlignCeil.
    apply aligned_iff in Hm as [k ->].
    dm pos q r. destruct (N.eqb_spec r 0) as [E|E]; [exact Hle|].
    assert (q < k) by nia.
    replace (pos + P - r) with ((q + 1) * P) by nia. nia.
  Qed.

  Lemma ceil_idem pos : pageAlignCeil P (pageAlignCeil P pos) = pageAlignCeil P pos.
  Proof. apply ceil_of_aligned, ceil_aligned. Qed.

  (* ---- floor ---- *)
  Lemma floor_of_aligned pos : aligned P pos -> pageAlignFloor P pos = pos.
  Proof. unfold aligned, pageAlignFloor. intros ->. reflexivity. Qed.

  Lemma floor_eq pos : pageAlignFloor P pos = P * (pos / P).
  Proof.
    unfold pageAlignFloor. dm pos q r.
    destruct (N.eqb_spec r 0) as [E|E]; lia.
  Qed.

  Lemma floor_aligned pos : aligned P (pageAlignFloor P pos).
  Proof. rewrite floor_eq. apply aligned_iff. exists (pos / P). lia. Qed.

  Lemma floor_le pos : pageAlignFloor P pos <= pos.
  Proof. rewrite floor_eq. dm pos q r. lia. Qed.

  Lemma floor_gt pos : pos < pageAlignFloor P pos + P.
  Proof. rewrite floor_eq. dm pos q r. lia. Qed.

  Lemma floor_greatest pos m : aligned P m -> m <= pos -> m <= pageAlignFloor P pos.
  Proof.
    intros Hm Hle. rewrite floor_eq.
    apply aligned_iff in Hm as [k ->].
    dm pos q r.
    assert (k <= q) by nia. nia.
  Qed.

  Lemma floor_idem pos : pageAlignFloor P (pageAlignFloor P pos) = pageAlignFloor P pos.
  Proof. apply floor_of_aligned, floor_aligned. Qed.

  Lemma floor_div pos : pageAlignFloor P pos / P = pos / P.
  Proof. rewrite floor_eq, N.mul_comm. apply N.div_mul, P_nz. Qed.

  (* the summary asked for: floor pos <= pos <= ceil pos < pos + P *)
  Theorem page_align_sandwich pos :
    pageAlignFloor P pos <= pos /\ pos <= pageAlignCeil P pos /\ pageAlignCeil P pos < pos + P.
  Proof. split; [apply floor_le | split; [apply ceil_ge | apply ceil_lt]]. Qed.

  Lemma ceil_floor_same_or_next pos :
    pageAlignCeil P pos = pageAlignFloor P pos \/
    pageAlignCeil P pos = pageAlignFloor P pos + P.
  Proof.
    unfold pageAlignCeil, pageAlignFloor. dm pos q r.
    destruct (N.eqb_spec r 0) as [E|E]; [left; reflexivity|right; lia].
  Qed.

  Lemma pageOffset_floor pos : pageOffset pos P = pageAlignFloor P pos.
  Proof. reflexivity. Qed.
End PageAlign.

(* instantiation at the real page size *)
Lemma StorePageSize_pos : 0 < StorePageSize.
Proof. reflexivity. Qed.
Definition page_align_sandwich_4096 := page_align_sandwich StorePageSize StorePageSize_pos.
Definition ceil_least_4096 := ceil_least StorePageSize StorePageSize_pos.
Definition floor_greatest_4096 := floor_greatest StorePageSize StorePageSize_pos.
Print Assumptions page_align_sandwich.
Print Assumptions ceil_least.
Print Assumptions floor_greatest.
