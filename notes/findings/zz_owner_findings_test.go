package moss

import (
	"fmt"
	"io/ioutil"
	"os"
	"sort"
	"strings"
	"testing"
	"time"
)

func zzWaitPersisted(t *testing.T, coll Collection) {
	deadline := time.Now().Add(10 * time.Second)
	for time.Now().Before(deadline) {
		st, _ := coll.Stats()
		if st.CurDirtyOps == 0 && st.CurDirtyTopSegments == 0 && st.CurDirtyMidSegments == 0 && st.CurDirtyBaseSegments == 0 {
			c := coll.(*collection)
			c.m.Lock()
			idle := c.stackDirtyTop == nil && c.stackDirtyBase == nil && (c.stackDirtyMid == nil || c.stackDirtyMid.isEmpty())
			c.m.Unlock()
			if idle {
				return
			}
		}
		time.Sleep(2 * time.Millisecond)
	}
	t.Fatalf("not persisted in time")
}

func zzFiles(dir string) []string {
	ents, _ := ioutil.ReadDir(dir)
	var out []string
	for _, e := range ents {
		out = append(out, e.Name())
	}
	sort.Strings(out)
	return out
}

// E: only child collections hold data; compaction into a new file never
// unlinks the old one.
func TestZZChildOnlyCompactionLeavesFiles(t *testing.T) {
	for _, concern := range []CompactionConcern{CompactionAllow, CompactionForce} {
		dir, _ := ioutil.TempDir("", "zzown")
		defer os.RemoveAll(dir)
		so := StoreOptions{CollectionOptions: CollectionOptions{MergerIdleRunTimeoutMS: -1}}
		po := StorePersistOptions{CompactionConcern: concern}
		store, coll, err := OpenStoreCollection(dir, so, po)
		if err != nil {
			t.Fatal(err)
		}
		for round := 0; round < 4; round++ {
			b, _ := coll.NewBatch(0, 0)
			cb, _ := b.NewChildCollectionBatch("c", BatchOptions{})
			cb.Set([]byte(fmt.Sprintf("k%d", round)), []byte("v"))
			if err := coll.ExecuteBatch(b, WriteOptions{}); err != nil {
				t.Fatal(err)
			}
			b.Close()
			zzWaitPersisted(t, coll)
			fmt.Printf("concern %d round %d files %v\n", concern, round, zzFiles(dir))
		}
		coll.Close()
		store.Close()
		time.Sleep(200 * time.Millisecond)
		fmt.Printf("concern %d after close: files %v\n", concern, zzFiles(dir))
	}
}

// F: the last footer holds no segment at all: the store loses track of its file.
func TestZZEmptyFooterLosesFile(t *testing.T) {
	dir, _ := ioutil.TempDir("", "zzown")
	defer os.RemoveAll(dir)
	so := StoreOptions{CollectionOptions: CollectionOptions{MergerIdleRunTimeoutMS: -1}}
	po := StorePersistOptions{CompactionConcern: CompactionDisable}
	store, coll, err := OpenStoreCollection(dir, so, po)
	if err != nil {
		t.Fatal(err)
	}
	b, _ := coll.NewBatch(0, 0)
	cb, _ := b.NewChildCollectionBatch("c", BatchOptions{})
	cb.Set([]byte("k"), []byte("v"))
	coll.ExecuteBatch(b, WriteOptions{})
	b.Close()
	zzWaitPersisted(t, coll)
	fmt.Printf("F after child round: %v\n", zzFiles(dir))
	b, _ = coll.NewBatch(0, 0)
	b.DelChildCollection("c")
	coll.ExecuteBatch(b, WriteOptions{})
	b.Close()
	zzWaitPersisted(t, coll)
	time.Sleep(50 * time.Millisecond)
	fmt.Printf("F after drop round: %v\n", zzFiles(dir))
	b, _ = coll.NewBatch(0, 0)
	b.Set([]byte("a"), []byte("1"))
	coll.ExecuteBatch(b, WriteOptions{})
	b.Close()
	zzWaitPersisted(t, coll)
	fmt.Printf("F after next round: %v\n", zzFiles(dir))
	coll.Close()
	store.Close()
	time.Sleep(200 * time.Millisecond)
	fmt.Printf("F after close: files %v\n", zzFiles(dir))
}

func zzIterAll(it Iterator) string {
	var sb strings.Builder
	for {
		k, v, err := it.Current()
		if err != nil {
			sb.WriteString(fmt.Sprintf("<%v>", err))
			break
		}
		sb.WriteString(fmt.Sprintf("%s=%s ", k, v))
		if it.Next() != nil {
			break
		}
	}
	return sb.String()
}

// A: an iterator on a collection snapshot borrows the snapshot's stack.
func TestZZIterAfterSnapshotClose(t *testing.T) {
	dir, _ := ioutil.TempDir("", "zzown")
	defer os.RemoveAll(dir)
	so := StoreOptions{CollectionOptions: CollectionOptions{MergerIdleRunTimeoutMS: -1}}
	po := StorePersistOptions{CompactionConcern: CompactionDisable}
	store, coll, err := OpenStoreCollection(dir, so, po)
	if err != nil {
		t.Fatal(err)
	}
	b, _ := coll.NewBatch(0, 0)
	for i := 0; i < 5; i++ {
		b.Set([]byte(fmt.Sprintf("p%d", i)), []byte("persisted"))
	}
	coll.ExecuteBatch(b, WriteOptions{})
	b.Close()
	zzWaitPersisted(t, coll)
	// keep the merger/persister from taking the next batch: block OnEvent? simpler: huge batch not needed,
	// take the snapshot right after the batch.
	c := coll.(*collection)
	_ = c
	b, _ = coll.NewBatch(0, 0)
	b.Set([]byte("m0"), []byte("memory"))
	b.Set([]byte("z9"), []byte("memory"))
	coll.ExecuteBatch(b, WriteOptions{})
	b.Close()
	ss, _ := coll.Snapshot()
	ssStack := ss.(*segmentStack)
	fmt.Printf("A snapshot has %d in-memory segments, LL %v\n", len(ssStack.a), ssStack.lowerLevelSnapshot != nil)
	it, err := ss.StartIterator(nil, nil, IteratorOptions{})
	if err != nil {
		t.Fatal(err)
	}
	it.Next()
	it.Next()
	it2, _ := ss.StartIterator(nil, nil, IteratorOptions{})
	full := zzIterAll(it2)
	it2.Close()
	fmt.Printf("A full content:           %s\n", full)
	ss.Close()
	err = it.SeekTo([]byte("a"))
	fmt.Printf("A after close+SeekTo(a) (err %v): %s\n", err, zzIterAll(it))
	it.Close()
	coll.Close()
	store.Close()
}

// E2: child-only data appended without compaction, then a compaction.
func TestZZChildOnlyThenCompact(t *testing.T) {
	dir, _ := ioutil.TempDir("", "zzown")
	defer os.RemoveAll(dir)
	so := StoreOptions{CollectionOptions: CollectionOptions{MergerIdleRunTimeoutMS: -1, OnError: func(e error) { fmt.Printf("E2 OnError: %v\n", e) }}}
	store, coll, err := OpenStoreCollection(dir, so, StorePersistOptions{CompactionConcern: CompactionDisable})
	if err != nil {
		t.Fatal(err)
	}
	round := func(k string) {
		fmt.Printf("E2 round %s\n", k)
		b, _ := coll.NewBatch(0, 0)
		cb, _ := b.NewChildCollectionBatch("c", BatchOptions{})
		cb.Set([]byte(k), []byte("v"))
		coll.ExecuteBatch(b, WriteOptions{})
		b.Close()
		zzWaitPersisted(t, coll)
	}
	round("k1")
	round("k2")
	fmt.Printf("E2 after 2 appended child rounds: %v\n", zzFiles(dir))
	coll.Close()
	// same store, a collection that compacts
	coll, err = store.OpenCollection(so, StorePersistOptions{CompactionConcern: CompactionForce})
	if err != nil {
		t.Fatal(err)
	}
	round("k3")
	time.Sleep(100 * time.Millisecond)
	fmt.Printf("E2 after compaction round: %v\n", zzFiles(dir))
	round("k4")
	time.Sleep(100 * time.Millisecond)
	fmt.Printf("E2 after 2nd compaction round: %v\n", zzFiles(dir))
	coll.Close()
	store.Close()
	time.Sleep(200 * time.Millisecond)
	fmt.Printf("E2 after close: %v\n", zzFiles(dir))
}

type zzFailMerge struct{ fail bool }

func (m *zzFailMerge) Name() string { return "zz" }
func (m *zzFailMerge) FullMerge(key, existing []byte, operands [][]byte) ([]byte, bool) {
	if m.fail {
		return nil, false
	}
	rv := append([]byte{}, existing...)
	for _, o := range operands {
		rv = append(rv, o...)
	}
	return rv, true
}
func (m *zzFailMerge) PartialMerge(key, l, r []byte) ([]byte, bool) {
	return append(append([]byte{}, l...), r...), true
}

// Q: the lower-level iterator is not closed when its first Current() fails.
func TestZZLowerLevelIterLeakOnError(t *testing.T) {
	dir, _ := ioutil.TempDir("", "zzown")
	defer os.RemoveAll(dir)
	mo := &zzFailMerge{}
	so := StoreOptions{CollectionOptions: CollectionOptions{MergerIdleRunTimeoutMS: -1, MergeOperator: mo}}
	store, coll, err := OpenStoreCollection(dir, so, StorePersistOptions{CompactionConcern: CompactionDisable})
	if err != nil {
		t.Fatal(err)
	}
	// two persisted segments so that the footer iterator is a heap iterator
	b, _ := coll.NewBatch(0, 0)
	b.Set([]byte("a"), []byte("1"))
	b.Set([]byte("b"), []byte("1"))
	coll.ExecuteBatch(b, WriteOptions{})
	b.Close()
	zzWaitPersisted(t, coll)
	b, _ = coll.NewBatch(0, 0)
	b.Merge([]byte("a"), []byte("+"))
	coll.ExecuteBatch(b, WriteOptions{})
	b.Close()
	zzWaitPersisted(t, coll)
	ss, _ := coll.Snapshot()
	st := ss.(*segmentStack)
	foot := st.lowerLevelSnapshot.ss.(*Footer)
	fmt.Printf("Q footer slocs %d, footer refs before %d\n", len(foot.SegmentLocs), foot.refs)
	mo.fail = true
	it, err := ss.StartIterator(nil, nil, IteratorOptions{})
	fmt.Printf("Q StartIterator with failing operator: iter %v err %v; footer refs after %d\n", it, err, foot.refs)
	mo.fail = false
	ss.Close()
	coll.Close()
	store.Close()
	time.Sleep(100 * time.Millisecond)
	fmt.Printf("Q footer refs after closing everything: %d\n", foot.refs)
	var fds []string
	ents, _ := ioutil.ReadDir("/proc/self/fd")
	for _, e := range ents {
		if l, err := os.Readlink("/proc/self/fd/" + e.Name()); err == nil && strings.HasPrefix(l, dir) {
			fds = append(fds, l)
		}
	}
	fmt.Printf("Q open fds in dir after closing everything: %v\n", fds)
}

// A2: Current() of a Merge operand after the snapshot was closed.
func TestZZIterMergeAfterSnapshotClose(t *testing.T) {
	dir, _ := ioutil.TempDir("", "zzown")
	defer os.RemoveAll(dir)
	mo := &zzFailMerge{}
	so := StoreOptions{CollectionOptions: CollectionOptions{MergerIdleRunTimeoutMS: -1, MergeOperator: mo}}
	store, coll, err := OpenStoreCollection(dir, so, StorePersistOptions{CompactionConcern: CompactionDisable})
	if err != nil {
		t.Fatal(err)
	}
	b, _ := coll.NewBatch(0, 0)
	b.Set([]byte("a"), []byte("base"))
	b.Set([]byte("b"), []byte("base"))
	coll.ExecuteBatch(b, WriteOptions{})
	b.Close()
	zzWaitPersisted(t, coll)
	b, _ = coll.NewBatch(0, 0)
	b.Merge([]byte("b"), []byte("+x"))
	coll.ExecuteBatch(b, WriteOptions{})
	b.Close()
	ss, _ := coll.Snapshot()
	it, _ := ss.StartIterator(nil, nil, IteratorOptions{})
	it.Next() // now at b
	k, v, err := it.Current()
	fmt.Printf("A2 snapshot open:   %s=%s %v\n", k, v, err)
	ss.Close()
	k, v, err = it.Current()
	fmt.Printf("A2 snapshot closed: %s=%s %v\n", k, v, err)
	it.Close()
	coll.Close()
	store.Close()
}
