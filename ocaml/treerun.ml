(* Tree lock-step: replays harness traces (with child collections) on the
   extracted tree model and compares observations.  One verdict line per
   case, one line per mismatching step. *)
open Model
open Conv

let choice_of_sx = function
  | Sexp.L [Sexp.A "noop"] -> PNoop
  | Sexp.L [Sexp.A "append"] -> PAppend
  | Sexp.L [Sexp.A "compact"; n] -> PCompact (nat_of_int (int_of_sx n))
  | s -> failwith ("choice: " ^ Sexp.to_string s)

let name_of_sx = function Sexp.A a -> bytes_of_atom a | _ -> failwith "name"

let rec tbatch_of_sx (s : Sexp.t) : tbatch =
  match s with
  | Sexp.L [Sexp.A "tb"; Sexp.L (Sexp.A "ops" :: ops); Sexp.L (Sexp.A "kids" :: kids)] ->
      TB (List.map op_entry ops,
          List.map (function
              | Sexp.L [Sexp.A "c"; n; b] -> (name_of_sx n, Some (tbatch_of_sx b))
              | Sexp.L [Sexp.A "x"; n] -> (name_of_sx n, None)
              | k -> failwith ("kid: " ^ Sexp.to_string k)) kids)
  | _ -> failwith "tb"

let rec lvltree_of_sx (s : Sexp.t) : lvltree =
  match s with
  | Sexp.L (Sexp.A "lt" :: n :: kids) ->
      LT (nat_of_int (int_of_sx n),
          List.map (function
              | Sexp.L [nm; t] -> (name_of_sx nm, lvltree_of_sx t)
              | k -> failwith ("ltkid: " ^ Sexp.to_string k)) kids)
  | _ -> failwith "lt"

let label_of_sx (s : Sexp.t) : thlabel =
  match s with
  | Sexp.L [Sexp.A "batch"; tb] -> THBatch (tbatch_of_sx tb)
  | Sexp.L [Sexp.A "ingest"] -> THIngest
  | Sexp.L [Sexp.A "swap"; t] -> THSwap (lvltree_of_sx t)
  | Sexp.L [Sexp.A "handover"] -> THHandover
  | Sexp.L [Sexp.A "pbegin"; ch] -> THPBegin (choice_of_sx ch)
  | Sexp.L [Sexp.A "pbeginfail"] -> THPBeginFail
  | Sexp.L [Sexp.A "ppublish"] -> THPPublish
  | Sexp.L (Sexp.A "notify" :: _) -> THNotify
  | Sexp.L [Sexp.A "snap"; id] -> THSnap (nat_of_int (int_of_sx id))
  | Sexp.L [Sexp.A "snapclose"; id] -> THSnapClose (nat_of_int (int_of_sx id))
  | Sexp.L [Sexp.A "close"; Sexp.A "none"] -> THClose None
  | Sexp.L [Sexp.A "close"; ch] -> THClose (Some (choice_of_sx ch))
  | Sexp.L [Sexp.A "reopen"] -> THReopen
  | _ -> failwith ("label: " ^ Sexp.to_string s)

let fnode_empty = FN ([], N0, [])

(* dumped stack -> model stack (newest first) *)
let rec sstack_of_sx (s : Sexp.t) : sstack option =
  match s with
  | Sexp.A "nil" -> None
  | Sexp.L (Sexp.A "ss" :: inc :: hasll :: rest) ->
      let segs = List.rev (List.map seg_of_sx (Sexp.field_exn "segs" rest)) in
      let kids = List.filter_map (function
          | Sexp.L [n; c] -> (match sstack_of_sx c with Some x -> Some (name_of_sx n, x) | None -> None)
          | k -> failwith ("sskid: " ^ Sexp.to_string k)) (Sexp.field_exn "kids" rest) in
      Some (SS (segs, n_of_int (int_of_sx inc), (if bool_of_sx hasll then Some fnode_empty else None), kids))
  | _ -> failwith ("sstack: " ^ Sexp.to_string s)

let rec fnode_of_sx (s : Sexp.t) : fnode option =
  match s with
  | Sexp.A "nil" | Sexp.A "none" -> None
  | Sexp.L (Sexp.A "ss" :: inc :: _ :: rest) ->
      let segs = List.rev (List.map seg_of_sx (Sexp.field_exn "segs" rest)) in
      let kids = List.filter_map (function
          | Sexp.L [n; c] -> (match fnode_of_sx c with Some x -> Some (name_of_sx n, x) | None -> None)
          | k -> failwith ("fnkid: " ^ Sexp.to_string k)) (Sexp.field_exn "kids" rest) in
      Some (FN (segs, n_of_int (int_of_sx inc), kids))
  | _ -> failwith ("fnode: " ^ Sexp.to_string s)

let rec cnode_of_sx (s : Sexp.t) : cnode =
  match s with
  | Sexp.L (Sexp.A "cn" :: inc :: hi :: kids) ->
      CN (n_of_int (int_of_sx inc), n_of_int (int_of_sx hi),
          List.map (function
              | Sexp.L [n; c] -> (name_of_sx n, cnode_of_sx c)
              | k -> failwith ("cnkid: " ^ Sexp.to_string k)) kids)
  | _ -> failwith ("cnode: " ^ Sexp.to_string s)

let rec rnode_of_sx (s : Sexp.t) : rnode =
  match s with
  | Sexp.L (Sexp.A "r" :: rest) ->
      RN (List.map kv_of_sx (Sexp.field_exn "gets" rest),
          List.map kv_of_sx (Sexp.field_exn "iter" rest),
          List.map (function
              | Sexp.L [n; Sexp.A "nil"] -> (name_of_sx n, None)
              | Sexp.L [n; c] -> (name_of_sx n, Some (rnode_of_sx c))
              | k -> failwith ("rkid: " ^ Sexp.to_string k)) (Sexp.field_exn "kids" rest))
  | _ -> failwith ("reads: " ^ Sexp.to_string s)

let obs_of_sx (s : Sexp.t) : tobs =
  let items = Sexp.args s in
  let dump = Sexp.field_exn "dump" items in
  let one name = match Sexp.field_exn name dump with [x] -> x | _ -> failwith name in
  let stats = List.map int_of_sx (Sexp.field_exn "stats" items) in
  { to_coll = cnode_of_sx (one "coll");
    to_top = sstack_of_sx (one "top"); to_mid = sstack_of_sx (one "mid");
    to_base = sstack_of_sx (one "base"); to_clean = sstack_of_sx (one "clean");
    to_ll = fnode_of_sx (one "ll");
    to_cached = (match one "cached" with Sexp.A "1" -> true | _ -> false);
    to_reads = (match Sexp.field_exn "reads" items with [r] -> rnode_of_sx r | _ -> failwith "reads");
    to_cget = List.map kv_of_sx (Sexp.field_exn "cget" items);
    to_dirty_ops = nat_of_int (List.nth stats 0); to_dirty_segs = nat_of_int (List.nth stats 2);
    to_held = List.map (function
        | Sexp.L [id; r] -> (nat_of_int (int_of_sx id), rnode_of_sx r)
        | k -> failwith ("held: " ^ Sexp.to_string k)) (Sexp.field_exn "snaps" items);
    to_store = (match Sexp.field "store" items with Some (f :: _) -> fnode_of_sx f | _ -> None) }

(* ---- printers for diagnostics ---- *)
let rec ss_sx (s : sstack) : string =
  match s with
  | SS (segs, inc, ll, kids) ->
      Printf.sprintf "(ss %d %s %s (kids %s))" (int_of_n inc) (match ll with Some _ -> "ll" | None -> "-")
        (stack_sx (List.rev segs))
        (String.concat " " (List.map (fun (n, c) -> "(" ^ atom_of_bytes n ^ " " ^ ss_sx c ^ ")") kids))
let oss_sx = function None -> "nil" | Some s -> ss_sx s
let rec fn_sx (f : fnode) : string =
  match f with
  | FN (segs, inc, kids) ->
      Printf.sprintf "(fn %d %s (kids %s))" (int_of_n inc) (stack_sx (List.rev segs))
        (String.concat " " (List.map (fun (n, c) -> "(" ^ atom_of_bytes n ^ " " ^ fn_sx c ^ ")") kids))
let ofn_sx = function None -> "nil" | Some s -> fn_sx s
let rec cn_sx (c : cnode) : string =
  match c with
  | CN (i, h, kids) ->
      Printf.sprintf "(cn %d %s)" (int_of_n i)
        (String.concat " " (List.map (fun (n, c) -> "(" ^ atom_of_bytes n ^ " " ^ cn_sx c ^ ")") kids))
let rec rn_sx (r : rnode) : string =
  match r with
  | RN (g, i, kids) ->
      Printf.sprintf "(r gets=%s iter=%s kids=(%s))" (kvs_sx g) (kvs_sx i)
        (String.concat " " (List.map (fun (n, c) -> "(" ^ atom_of_bytes n ^ " " ^
                                                   (match c with Some x -> rn_sx x | None -> "nil") ^ ")") kids))

(* non-triviality: a key (on some path) lives in >= 2 different sections; child: a child collection exists *)
let has_children (s : tstate) : bool = match s.t_coll with CN (_, _, k) -> k <> []

let rec ss_paths (prefix : string) (s : sstack) : (string * bytes list) list =
  match s with
  | SS (segs, _, _, kids) ->
      (prefix, List.sort_uniq compare (List.concat_map (fun seg -> List.map fst seg) segs))
      :: List.concat_map (fun (n, c) -> ss_paths (prefix ^ "/" ^ atom_of_bytes n) c) kids
let rec fn_paths (prefix : string) (f : fnode) : (string * bytes list) list =
  match f with
  | FN (segs, _, kids) ->
      (prefix, List.sort_uniq compare (List.concat_map (fun seg -> List.map fst seg) segs))
      :: List.concat_map (fun (n, c) -> fn_paths (prefix ^ "/" ^ atom_of_bytes n) c) kids
let multi_section (s : tstate) : bool =
  let secs = List.map (function Some x -> ss_paths "" x | None -> []) [s.t_top; s.t_mid; s.t_base; s.t_clean]
             @ [match s.t_ll with Some f -> fn_paths "" f | None -> []] in
  let tagged = List.concat (List.mapi (fun i sec -> List.concat_map (fun (p, ks) -> List.map (fun k -> ((p, k), i)) ks) sec) secs) in
  let tbl = Hashtbl.create 64 in
  List.iter (fun (pk, i) -> let cur = try Hashtbl.find tbl pk with Not_found -> [] in
              if not (List.mem i cur) then Hashtbl.replace tbl pk (i :: cur)) tagged;
  Hashtbl.fold (fun _ l acc -> acc || List.length l >= 2) tbl false

type case_state = {
  id : int; seed : string; mutable r : trs option; mutable univ : bytes list;
  mutable steps : int; mutable nontrivial : int; mutable withkids : int;
  mutable mism : int; mutable skipped : string option; mutable childops : bool; mutable held_refs : (int * rtree) list;
  mutable thm : cst option; mutable thm_steps : int;  (* the combined system of the end-to-end theorem (TreeInv.cstep), stepped alongside *)
}

let cur_items : Sexp.t list ref = ref []

(* every observation takes a Snapshot: the theorem's system does the same *)
let snap_thm (c : case_state) (r2 : trs) =
  match c.thm with
  | Some cs ->
      (match cstep fm0 r2.tconf cs CSnap with
       | Some cs' when cs'.c_t = r2.ts -> c.thm <- Some cs'
       | _ ->
           c.thm <- None; c.mism <- c.mism + 1;
           Printf.printf "MISMATCH case=%d seed=%s step=%d label=snap kinds=tmodel:theorem-system-differs\n" c.id c.seed c.steps)
  | None -> ()

let () =
  let files = List.tl (Array.to_list Sys.argv) in
  let cur : case_state option ref = ref None in
  let finish () =
    match !cur with
    | None -> ()
    | Some c ->
        (match c.skipped with
         | Some why -> Printf.printf "CASE %d seed=%s SKIP %s\n" c.id c.seed why
         | None -> Printf.printf "CASE %d seed=%s %s steps=%d nontrivial=%d withkids=%d childops=%b thmsteps=%d\n" c.id c.seed
                     (if c.mism = 0 then "AGREE" else "DISAGREE") c.steps c.nontrivial c.withkids c.childops c.thm_steps);
        cur := None in
  let check c (label : string) (o : tobs) =
    match c.r with
    | None -> ()
    | Some r ->
        let s = r.ts in
        let mc = model_canon s in
        let ic = canonical o.to_coll o.to_top o.to_mid o.to_base o.to_clean o.to_ll in
        let kinds = ref [] in
        let add k = kinds := k :: !kinds in
        if mc.k_coll <> ic.k_coll then add "tmodel:coll";
        if mc.k_top <> ic.k_top then add "tmodel:top";
        if mc.k_mid <> ic.k_mid then add "tmodel:mid";
        if mc.k_base <> ic.k_base then add "tmodel:base";
        if mc.k_clean <> ic.k_clean then add "tmodel:clean";
        if mc.k_ll <> ic.k_ll then add "tmodel:ll";
        if (s.t_cached <> None) <> o.to_cached then add "tmodel:cached";
        let mreads = reads_of c.univ (t_cur_snapshot s) in
        if not (rnode_eqb mreads o.to_reads) then add "tmodel:reads";
        let mcget = List.map (fun k -> (k, t_coll_get s k)) c.univ in
        if mcget <> o.to_cget then add "tmodel:cget";
        if int_of_nat (t_dirty_segments s) <> int_of_nat o.to_dirty_segs then add "tmodel:dirtysegs";
        if int_of_nat (t_dirty_ops s) <> int_of_nat o.to_dirty_ops then add "tmodel:dirtyops";
        (match o.to_store with
         | Some f -> if (store_canon f).k_ll <> (store_canon r.tstore).k_ll then add "tmodel:store"
         | None -> ());
        List.iter (fun (id, rd) ->
            match List.find_opt (fun (i, _) -> int_of_nat i = int_of_nat id) r.theld with
            | Some (_, hs) -> if not (rnode_eqb (reads_of c.univ hs) rd) then add (Printf.sprintf "tmodel:held%d" (int_of_nat id))
            | None -> add (Printf.sprintf "tmodel:held%d" (int_of_nat id))) o.to_held;
        (* specification: a held snapshot still reads the reference tree of the moment it was taken *)
        List.iter (fun (id, rd) ->
            match List.assoc_opt (int_of_nat id) c.held_refs with
            | Some rt0 -> if not (rnode_eqb (ref_reads c.univ rt0) rd) then add (Printf.sprintf "tspec:held%d" (int_of_nat id))
            | None -> add (Printf.sprintf "tspec:held%d" (int_of_nat id))) o.to_held;
        (* specification *)
        let rt = tref_now r in
        let sreads = ref_reads c.univ rt in
        if not (rnode_eqb sreads o.to_reads) then add "tspec:reads";
        let scget = List.map (fun k -> (k, rt_get fm0 rt k)) c.univ in
        if scget <> o.to_cget then add "tspec:cget";
        if not r.treopen_ok then add "tspec:reopen-prefix";
        (match o.to_store with
         | Some f -> if not (zero_gauges_ok o.to_dirty_ops o.to_dirty_segs f r) then
               add (if zero_gauges_existence_only o.to_dirty_ops o.to_dirty_segs f r
                    then "tspec:zero-gauges-child-existence" else "tspec:zero-gauges-unpersisted")
         | None -> ());
        (match Sexp.field "onerr" !cur_items with
         | Some [a; b] -> if int_of_sx a > int_of_sx b then add "tspec:unexpected-error"
         | _ -> ());
        (* zero gauges => store holds everything *)
        if multi_section s then c.nontrivial <- c.nontrivial + 1;
        if has_children s then c.withkids <- c.withkids + 1;
        let ms = List.rev !kinds in
        if ms <> [] then begin
          c.mism <- c.mism + 1;
          Printf.printf "MISMATCH case=%d seed=%s step=%d label=%s kinds=%s\n" c.id c.seed c.steps label (String.concat "," ms);
          if List.exists (fun k -> List.mem k ["tmodel:coll"; "tmodel:top"; "tmodel:mid"; "tmodel:base"; "tmodel:clean"; "tmodel:ll"; "tmodel:store"]) ms then begin
            Printf.printf "  model: coll=%s top=%s mid=%s base=%s clean=%s ll=%s store=%s\n"
              (cn_sx mc.k_coll) (oss_sx mc.k_top) (oss_sx mc.k_mid) (oss_sx mc.k_base) (oss_sx mc.k_clean) (ofn_sx mc.k_ll)
              (ofn_sx (store_canon r.tstore).k_ll);
            Printf.printf "  impl:  coll=%s top=%s mid=%s base=%s clean=%s ll=%s store=%s\n"
              (cn_sx ic.k_coll) (oss_sx ic.k_top) (oss_sx ic.k_mid) (oss_sx ic.k_base) (oss_sx ic.k_clean) (ofn_sx ic.k_ll)
              (match o.to_store with Some f -> ofn_sx (store_canon f).k_ll | None -> "-")
          end;
          if List.exists (fun k -> List.mem k ["tmodel:reads"; "tspec:reads"; "tmodel:cget"; "tspec:cget"]) ms then
            Printf.printf "  impl reads=%s\n  model reads=%s\n  ref reads=%s\n  impl cget=%s\n"
              (rn_sx o.to_reads) (rn_sx mreads) (rn_sx sreads) (kvs_sx o.to_cget)
        end in
  let handle_line line =
    let sx = Sexp.parse line in
    match Sexp.head sx with
    | "case" ->
        finish ();
        (match Sexp.args sx with
         | id :: Sexp.A seed :: cfg :: Sexp.L [Sexp.A "universe"; Sexp.L univ] :: _ ->
             let cf = Sexp.args cfg in
             let kind = match Sexp.field_exn "ll" cf with [Sexp.A k] -> k | _ -> failwith "ll kind" in
             let cache = (match Sexp.field_exn "cache" cf with [b] -> bool_of_sx b | _ -> false) in
             let c = { cache_persisted = cache; has_ll = (kind <> "none") } in
             cur := Some { id = int_of_sx id; seed; r = Some (trinit c);
                           univ = List.map (function Sexp.A a -> bytes_of_atom a | _ -> failwith "univ") univ;
                           steps = 0; nontrivial = 0; withkids = 0; mism = 0;
                           skipped = (if kind = "map" then Some "map-lower-level" else None); childops = false; held_refs = []; thm = Some (cinit c); thm_steps = 0 }
         | _ -> failwith "case line")
    | "init" ->
        (match !cur with
         | Some c when c.skipped = None ->
             check c "init" (obs_of_sx (List.hd (Sexp.args sx)));
             (match c.r with
              | Some r0 -> (match trstep r0 (THSnap (nat_of_int 0)) with
                            | Some r2 -> c.r <- Some { r2 with theld = r0.theld }; snap_thm c r2
                            | None -> ())
              | None -> ())
         | _ -> ())
    | "step" ->
        (match !cur with
         | Some c when c.skipped = None ->
             let (lsx, osx) = match Sexp.args sx with [l; o] -> (l, o) | _ -> failwith "step" in
             let l = label_of_sx lsx in
             (match l with THBatch (TB (_, kids)) -> if kids <> [] then c.childops <- true | _ -> ());
             c.steps <- c.steps + 1;
             (match c.r with
              | None -> ()
              | Some r ->
                  (* the model does not accept the observed choice of a persistence round: report it, then
                     let the model take the round its own way, so that the specification oracles (which
                     depend on the history only) keep judging what the implementation shows afterwards *)
                  let stepped = match trstep r l with
                    | Some r' -> Some r'
                    | None ->
                        (match l with
                         | THPBegin _ ->
                             c.mism <- c.mism + 1;
                             Printf.printf "MISMATCH case=%d seed=%s step=%d label=%s kinds=tmodel:not-enabled\n  the model does not accept the observed persist choice; it continues with its own\n"
                               c.id c.seed c.steps (Sexp.head lsx);
                             List.fold_left (fun acc ch -> match acc with Some _ -> acc | None -> trstep r (THPBegin ch))
                               None [PAppend; PCompact O; PNoop]
                         | _ -> None) in
                  (match stepped with
                   | None ->
                       c.mism <- c.mism + 1; c.r <- None;
                       Printf.printf "MISMATCH case=%d seed=%s step=%d label=%s kinds=tmodel:not-enabled\n"
                         c.id c.seed c.steps (Sexp.head lsx)
                   | Some r' ->
                       c.r <- Some r';
                       (* the system the end-to-end theorem is about must be the system that runs here:
                          TreeInv.cstep (instantiated with the harness operator) is stepped alongside
                          and its collection and store must equal the runner's after every label *)
                       (match l with THReopen -> c.thm <- Some { c_t = r'.ts; c_pend = None; c_store = r'.tstore } | _ -> ());
                       (match (match l with THReopen -> None | _ -> c.thm) with
                        | None -> ()
                        | Some cs ->
                            let cl = (match l with
                                | THBatch b -> Some (CBatch b) | THIngest -> Some CIngest | THSwap t -> Some (CSwap t)
                                | THHandover -> Some CHandover | THPBegin ch -> Some (CPBegin ch)
                                | THPBeginFail -> Some CPBeginFail | THPPublish -> Some CPPublish
                                | THSnap _ -> Some CSnap | THNotify | THSnapClose _ -> None
                                | THClose _ -> c.thm <- None; None
                                | THReopen ->
                                    (* proved: the runner's reopen is cinit_from of the store (C04_runner_reopen_is_cinit_from) *)
                                    c.thm <- Some { c_t = r'.ts; c_pend = None; c_store = r'.tstore }; None) in
                            (match cl, c.thm with
                             | Some cl, Some _ ->
                                 (match cstep fm0 r.tconf cs cl with
                                  | Some cs' when cs'.c_t = r'.ts && cs'.c_store = r'.tstore -> c.thm <- Some cs'; c.thm_steps <- c.thm_steps + 1
                                  | _ ->
                                      c.thm <- None; c.mism <- c.mism + 1;
                                      Printf.printf "MISMATCH case=%d seed=%s step=%d label=%s kinds=tmodel:theorem-system-differs\n"
                                        c.id c.seed c.steps (Sexp.head lsx))
                             | _, _ -> ()));
                       (match l with
                        | THSnap id -> c.held_refs <- (int_of_nat id, tref_now r) :: c.held_refs
                        | THSnapClose id -> c.held_refs <- List.filter (fun (i, _) -> i <> int_of_nat id) c.held_refs
                        | _ -> ());
                       (match l with
                        | THClose _ ->
                            (* held snapshots stay readable while everything is closed *)
                            (match Sexp.field "held" (Sexp.args osx) with
                             | Some items ->
                                 let bad = List.filter_map (function
                                     | Sexp.L [id; rd] ->
                                         let idn = int_of_sx id in
                                         (match List.find_opt (fun (i, _) -> int_of_nat i = idn) r'.theld, List.assoc_opt idn c.held_refs with
                                          | Some (_, hs), Some rt0 ->
                                            if not (rnode_eqb (ref_reads c.univ rt0) (rnode_of_sx rd)) then Some (Printf.sprintf "tspec:held%d" idn)
                                            else if rnode_eqb (reads_of c.univ hs) (rnode_of_sx rd) then None
                                            else Some (Printf.sprintf "tmodel:held%d" idn)
                                          | _, _ -> Some (Printf.sprintf "tmodel:held%d" idn))
                                     | _ -> None) items in
                                 if bad <> [] then begin
                                   c.mism <- c.mism + 1;
                                   Printf.printf "MISMATCH case=%d seed=%s step=%d label=close kinds=%s\n" c.id c.seed c.steps (String.concat "," bad)
                                 end
                             | None -> ())
                        | _ when Sexp.head osx = "noobs" -> ()   (* blind step: nothing was read, nothing to compare *)
                        | _ ->
                            cur_items := Sexp.args osx;
                            let o = obs_of_sx osx in
                            check c (Sexp.head lsx) o;
                            (match l, o.to_store with
                             | THPBegin (PCompact O), Some f when not (fnode_full_shape_ok f) ->
                                 c.mism <- c.mism + 1;
                                 Printf.printf "MISMATCH case=%d seed=%s step=%d label=pbegin kinds=tspec:full-compaction-shape\n  store after full compaction=%s\n"
                                   c.id c.seed c.steps (ofn_sx (Some f))
                             | _ -> ());
                            (match trstep r' (THSnap (nat_of_int 0)) with
                             | Some r2 -> c.r <- Some { r2 with theld = r'.theld }; snap_thm c r2
                             | None -> ()))))
         | _ -> ())
    | "specviolation" ->
        (match !cur, Sexp.args sx with
         | Some c, Sexp.A kind :: rest when c.skipped = None ->
             c.mism <- c.mism + 1;
             Printf.printf "MISMATCH case=%d seed=%s step=%d label=specviolation kinds=%s\n  %s\n" c.id c.seed c.steps kind
               (String.concat " " (List.map Sexp.to_string rest))
         | _ -> ())
    | "error" ->
        (match !cur with
         | Some c -> Printf.printf "HARNESS-ERROR case=%d seed=%s %s\n" c.id c.seed (Sexp.to_string sx); c.skipped <- Some "harness-error"
         | None -> ())
    | "end" -> finish ()
    | _ -> () in
  List.iter (fun f ->
      let ic = open_in f in
      (try while true do
           let line = input_line ic in
           if String.length line > 0 then
             (try handle_line line
              with Failure m ->
                (match !cur with
                 | Some c -> Printf.printf "DRIVER-ERROR case=%d seed=%s %s\n" c.id c.seed m; c.skipped <- Some "driver-error"
                 | None -> Printf.printf "DRIVER-ERROR %s\n" m))
         done with End_of_file -> ());
      close_in ic; finish ()) files
