(* Minimal s-expression reader for the director's trace lines. *)
type t = A of string | L of t list

let parse (s : string) : t =
  let n = String.length s in
  let pos = ref 0 in
  let rec skip () = if !pos < n && (s.[!pos] = ' ' || s.[!pos] = '\t') then (incr pos; skip ()) in
  let rec item () =
    skip ();
    if !pos >= n then failwith "sexp: eof"
    else if s.[!pos] = '(' then begin
      incr pos;
      let rec items acc =
        skip ();
        if !pos >= n then failwith "sexp: unclosed"
        else if s.[!pos] = ')' then (incr pos; List.rev acc)
        else items (item () :: acc) in
      L (items [])
    end else if s.[!pos] = '"' then begin
      let b = Buffer.create 16 in
      incr pos;
      while !pos < n && s.[!pos] <> '"' do
        if s.[!pos] = '\\' && !pos + 1 < n then (Buffer.add_char b s.[!pos+1]; pos := !pos + 2)
        else (Buffer.add_char b s.[!pos]; incr pos)
      done;
      incr pos; A (Buffer.contents b)
    end else begin
      let st = !pos in
      while !pos < n && s.[!pos] <> ' ' && s.[!pos] <> '(' && s.[!pos] <> ')' do incr pos done;
      A (String.sub s st (!pos - st))
    end in
  item ()

let rec to_string = function
  | A a -> a
  | L l -> "(" ^ String.concat " " (List.map to_string l) ^ ")"

let head = function L (A h :: _) -> h | _ -> ""
let args = function L (_ :: r) -> r | _ -> []
(* (key ...) lookup among a list of sub-lists *)
let field (name : string) (items : t list) : t list option =
  let rec go = function
    | [] -> None
    | L (A h :: r) :: _ when h = name -> Some r
    | _ :: r -> go r in
  go items
let field_exn name items =
  match field name items with Some r -> r | None -> failwith ("sexp: missing field " ^ name)
