(* Batch-buffer correspondence (C19): the director's "batchbuf" traces replayed on the
   extracted BatchBuf model (bbmodel.ml), call by call.
     model:batchbuf-*   the model and the implementation differ (result, len/cap/bytes of
                        buf, kvs words, handle len/cap, decoded entries, search results)
     spec:batchbuf-*    the implementation differs from the specification: decoded entries
                        vs the operations that returned nil (in call order; key order after
                        sort), searches vs the linear specification, a rejected
                        Alloc/AllocXxx call that changed something *)
open Bbmodel

let rec pos_of_int (i : int) : positive =
  if i = 1 then XH else if i land 1 = 0 then XO (pos_of_int (i lsr 1)) else XI (pos_of_int (i lsr 1))
let n_of_int (i : int) : n = if i <= 0 then N0 else Npos (pos_of_int i)
let rec int_of_pos = function XH -> 1 | XO p -> 2 * int_of_pos p | XI p -> 2 * int_of_pos p + 1
let int_of_n = function N0 -> 0 | Npos p -> int_of_pos p
let rec int_of_nat = function O -> 0 | S m -> 1 + int_of_nat m

let hexval c =
  match c with
  | '0'..'9' -> Char.code c - 48
  | 'a'..'f' -> Char.code c - 87
  | 'A'..'F' -> Char.code c - 55
  | _ -> failwith "hex"
(* "x6162" -> OCaml string of the raw bytes; "nil" -> "" *)
let raw_of_atom (a : string) : string =
  if a = "nil" then "" else
  if String.length a = 0 || a.[0] <> 'x' then failwith ("bytes atom: " ^ a) else
  let n = (String.length a - 1) / 2 in
  String.init n (fun i -> Char.chr (16 * hexval a.[1 + 2*i] + hexval a.[2 + 2*i]))
let bytes_of_raw (s : string) : n list = List.init (String.length s) (fun i -> n_of_int (Char.code s.[i]))
let bytes_of_atom a = bytes_of_raw (raw_of_atom a)
let atom_of_bytes (b : n list) : string =
  "x" ^ String.concat "" (List.map (fun x -> Printf.sprintf "%02x" (int_of_n x)) b)

let int_of_sx = function Sexp.A a -> int_of_string a | _ -> failwith "int expected"
let atom = function Sexp.A a -> a | s -> failwith ("atom expected: " ^ Sexp.to_string s)

let entry_str ((k, o) : (n list * op)) : string =
  match o with
  | OSet v -> Printf.sprintf "(s %s %s)" (atom_of_bytes k) (atom_of_bytes v)
  | ODel -> Printf.sprintf "(d %s)" (atom_of_bytes k)
  | OMerge v -> Printf.sprintf "(m %s %s)" (atom_of_bytes k) (atom_of_bytes v)
let seg_str es = "(seg" ^ String.concat "" (List.map (fun e -> " " ^ entry_str e) es) ^ ")"

(* (s k v) / (d k) / (m k v) of the trace -> (kind, raw key, raw value) *)
let spec_entry = function
  | Sexp.L [Sexp.A "s"; Sexp.A k; Sexp.A v] -> ("s", raw_of_atom k, raw_of_atom v)
  | Sexp.L [Sexp.A "d"; Sexp.A k] -> ("d", raw_of_atom k, "")
  | Sexp.L [Sexp.A "m"; Sexp.A k; Sexp.A v] -> ("m", raw_of_atom k, raw_of_atom v)
  | s -> failwith ("entry: " ^ Sexp.to_string s)

let res_of_string = function
  | "ok" -> 0 | "keytoolarge" -> 1 | "valtoolarge" -> 2 | "alloctoolarge" -> 3 | _ -> 9

let shift56 = 1 lsl 56
let op_set = n_of_int (1 * shift56) and op_del = n_of_int (2 * shift56) and op_merge = n_of_int (3 * shift56)

let () =
  let files = List.tl (Array.to_list Sys.argv) in
  let cur_id = ref 0 and cur_seed = ref "" in
  let st = ref (new_batch N0 N0) in
  let handles : (int, handle) Hashtbl.t = Hashtbl.create 16 in
  let big = ref false and big_len = ref 0 in
  let step_no = ref 0 and nmis = ref 0 and nontrivial = ref 0 in
  let prev : (int * int * string * string) option ref = ref None in   (* len, cap, kvs, buf of the previous step *)
  let mismatch label kinds detail =
    incr nmis;
    Printf.printf "MISMATCH case=%d seed=%s step=%d label=%s kinds=%s\n" !cur_id !cur_seed !step_no label (String.concat "," kinds);
    List.iter (fun d -> Printf.printf "  %s\n" d) detail in
  let handle line =
    let sx = Sexp.parse line in
    match Sexp.head sx with
    | "case" ->
        (match Sexp.args sx with
         | id :: Sexp.A seed :: _ -> cur_id := int_of_sx id; cur_seed := seed
         | _ -> failwith "case");
        step_no := 0; nmis := 0; nontrivial := 0; Hashtbl.reset handles; prev := None; big := false; big_len := 0
    | "bbnew" ->
        (match Sexp.args sx with
         | [ops; cap] ->
             let c = int_of_sx cap in
             big := c > (1 lsl 20);
             st := new_batch (n_of_int (int_of_sx ops)) (n_of_int c)
         | _ -> failwith "bbnew")
    | "end" ->
        if !nmis = 0 then Printf.printf "CASE %d seed=%s AGREE steps=%d nontrivial=%d\n" !cur_id !cur_seed !step_no !nontrivial
        else Printf.printf "CASE %d seed=%s DISAGREE steps=%d nontrivial=%d\n" !cur_id !cur_seed !step_no !nontrivial
    | "bbstep" ->
        incr step_no;
        let items = Sexp.args sx in
        let call = List.hd items in
        let fields = List.tl items in
        let f1 name = match Sexp.field_exn name fields with [x] -> x | _ -> failwith ("field " ^ name) in
        let o_res = res_of_string (atom (f1 "res")) in
        let o_len = int_of_sx (f1 "len") and o_cap = int_of_sx (f1 "cap") in
        let o_kvs = String.concat " " (List.map Sexp.to_string (Sexp.field_exn "kvs" fields)) in
        let o_buf = match Sexp.field "buf" fields with Some [Sexp.A b] -> b | _ -> "" in
        let o_ents = Sexp.to_string (f1 "ents") in
        let o_spec = Sexp.to_string (f1 "spec") in
        let witness = Sexp.field "witness" fields <> None in
        let label = Sexp.head call in
        let cargs = Sexp.args call in
        let kinds = ref [] and detail = ref [] in
        let add k d = (if not (List.mem k !kinds) then kinds := k :: !kinds); detail := d :: !detail in
        let hsub id lo hi =
          match Hashtbl.find_opt handles id with
          | Some h -> h_sub h (n_of_int lo) (n_of_int hi)
          | None -> failwith (Printf.sprintf "unknown handle %d" id) in
        let ocap = n_of_int o_cap in
        (* ---- the model's step ---- *)
        let m_res = ref 0 in
        let apply c = let (s', r) = step !st c in st := s'; m_res := int_of_n (res_code r); r in
        let is_alloc_call = ref false in
        (match label, cargs with
         | "set", [Sexp.A k; Sexp.A v] -> ignore (apply (CSet (bytes_of_atom k, bytes_of_atom v, ocap)))
         | "merge", [Sexp.A k; Sexp.A v] -> ignore (apply (CMerge (bytes_of_atom k, bytes_of_atom v, ocap)))
         | "del", [Sexp.A k] -> ignore (apply (CDel (bytes_of_atom k, ocap)))
         | "alloc", [n] when not !big ->
             is_alloc_call := true;
             (match apply (CAlloc (n_of_int (int_of_sx n))) with
              | RHandle h ->
                  (match Sexp.field "h" fields with
                   | Some [id; l; c] ->
                       Hashtbl.replace handles (int_of_sx id) h;
                       if int_of_n (h_len h) <> int_of_sx l || int_of_n (h_cap h) <> int_of_sx c then
                         add "model:batchbuf-handle" (Printf.sprintf "handle len/cap: model %d/%d impl %s/%s"
                           (int_of_n (h_len h)) (int_of_n (h_cap h)) (Sexp.to_string l) (Sexp.to_string c))
                   | _ -> add "model:batchbuf-res" "model Alloc succeeded, the implementation returned no slice")
              | _ -> if Sexp.field "h" fields <> None then add "model:batchbuf-res" "model Alloc refused, the implementation returned a slice")
         | "fill", [id; Sexp.A d] ->
             (match Hashtbl.find_opt handles (int_of_sx id) with
              | Some h -> ignore (apply (CFill (h, bytes_of_atom d)))
              | None -> failwith "fill: unknown handle")
         | "aset", [id; a; b; c; d] -> is_alloc_call := true;
             let id = int_of_sx id in
             ignore (apply (CAllocSet (hsub id (int_of_sx a) (int_of_sx b), hsub id (int_of_sx c) (int_of_sx d))))
         | "amerge", [id; a; b; c; d] -> is_alloc_call := true;
             let id = int_of_sx id in
             ignore (apply (CAllocMerge (hsub id (int_of_sx a) (int_of_sx b), hsub id (int_of_sx c) (int_of_sx d))))
         | "adel", [id; a; b] -> is_alloc_call := true;
             ignore (apply (CAllocDel (hsub (int_of_sx id) (int_of_sx a) (int_of_sx b))))
         | "sort", [] -> st := sort_batch !st; m_res := 0
         | "find", [Sexp.A _] -> m_res := 0
         (* ---- oversize cases: buf is not materialised; the model's alloc_mutate / mutate_ex
            (which never look at the bytes) run on a state with the true capacity ---- *)
         | "alloc", [n] ->
             is_alloc_call := true;
             let n = int_of_sx n in
             if int_of_n !st.b_cap - !big_len < n then m_res := 3 else (big_len := !big_len + n; m_res := 0)
         | ("big-aset" | "big-amerge" | "big-adel"), (lo :: kl :: rest) ->
             is_alloc_call := true;
             let lo = int_of_sx lo and kl = int_of_sx kl in
             let vl = match rest with [v] -> int_of_sx v | _ -> 0 in
             let code = if label = "big-aset" then op_set else if label = "big-amerge" then op_merge else op_del in
             let kh = { h_gen = !st.b_gen; h_lo = n_of_int lo; h_hi = n_of_int (lo + kl); h_acap = !st.b_cap } in
             let vh = { h_gen = !st.b_gen; h_lo = n_of_int (lo + kl); h_hi = n_of_int (lo + kl + vl); h_acap = !st.b_cap } in
             let (s', r) = alloc_mutate !st code kh vh in
             st := s'; m_res := int_of_n (res_code r)
         | "big-set", [kl; vl] ->
             let kl = int_of_sx kl and vl = int_of_sx vl in
             let ks = !big_len in
             big_len := !big_len + kl + vl;
             let (s', r) = mutate_ex !st op_set (n_of_int ks) (n_of_int kl) (n_of_int vl) in
             st := s'; m_res := int_of_n (res_code r)
         | _ -> failwith ("call: " ^ Sexp.to_string call));
        (* ---- model vs implementation ---- *)
        if !m_res <> o_res then add "model:batchbuf-res" (Printf.sprintf "result: model %d impl %d" !m_res o_res);
        let m_len = if !big then !big_len else List.length !st.b_buf in
        if m_len <> o_len then add "model:batchbuf-len" (Printf.sprintf "len(buf): model %d impl %d" m_len o_len);
        if int_of_n !st.b_cap <> o_cap then add "model:batchbuf-cap" (Printf.sprintf "cap(buf): model %d impl %d" (int_of_n !st.b_cap) o_cap);
        let m_kvs = String.concat " " (List.map (fun w -> string_of_int (int_of_n w)) !st.b_kvs) in
        if m_kvs <> o_kvs then add "model:batchbuf-kvs" (Printf.sprintf "kvs: model [%s] impl [%s]" m_kvs o_kvs);
        if not !big then begin
          let m_buf = atom_of_bytes !st.b_buf in
          if m_buf <> o_buf && m_len = o_len then add "model:batchbuf-buf" (Printf.sprintf "buf: model %s impl %s" m_buf o_buf);
          (match entries !st with
           | Some es -> if seg_str es <> o_ents then add "model:batchbuf-entries" (Printf.sprintf "entries: model %s impl %s" (seg_str es) o_ents)
           | None ->
               (* the model faults where an offset leaves len(buf); Go checks against cap(buf) *)
               if not witness then add "model:batchbuf-entries" (Printf.sprintf "entries: the model faults, impl %s" o_ents))
        end;
        (* ---- implementation vs specification ---- *)
        if witness then begin
          if o_ents <> o_spec then
            add "spec:batchbuf-stale-handle"
              (Printf.sprintf "stale-handle witness: every call returned nil, the batch decodes to %s instead of %s (kvs [%s], len(buf) %d)"
                 o_ents o_spec o_kvs o_len)
        end else if o_ents <> o_spec then
          add (if label = "sort" || label = "find" then "spec:batchbuf-sort" else "spec:batchbuf-entries")
            (Printf.sprintf "decoded %s, operations that returned nil %s" o_ents o_spec);
        (match !prev with
         | Some (pl, pc, pk, pb) when !is_alloc_call && o_res <> 0 ->
             if pl <> o_len || pc <> o_cap || pk <> o_kvs || pb <> o_buf then
               add "spec:batchbuf-rejected-changed"
                 (Printf.sprintf "a rejected %s changed the batch: len %d -> %d, cap %d -> %d, kvs [%s] -> [%s]" label pl o_len pc o_cap pk o_kvs)
         | _ -> ());
        prev := Some (o_len, o_cap, o_kvs, o_buf);
        (* ---- searches on the sorted batch ---- *)
        (match label, cargs with
         | "find", [Sexp.A k] ->
             let key = raw_of_atom k in
             let spec = List.map spec_entry (Sexp.args (f1 "spec")) in
             let lb = List.length (List.filter (fun (_, sk, _) -> compare sk key < 0) spec) in
             let o_pos = match f1 "pos" with Sexp.A "fault" -> -1 | p -> int_of_sx p in
             if o_pos <> lb then add "spec:batchbuf-find" (Printf.sprintf "findStartKeyInclusivePos(%s) = %d, specification %d" k o_pos lb);
             let m_pos = int_of_nat (batch_find_start !st (bytes_of_raw key)) in
             if m_pos <> o_pos then add "model:batchbuf-find" (Printf.sprintf "findStartKeyInclusivePos(%s): model %d impl %d" k m_pos o_pos);
             let o_got = Sexp.to_string (f1 "got") in
             let s_got = match List.filter (fun (_, sk, _) -> sk = key) spec with
               | (kind, sk, sv) :: _ ->
                   let kb = bytes_of_raw sk and vb = bytes_of_raw sv in
                   entry_str (kb, (match kind with "s" -> OSet vb | "m" -> OMerge vb | _ -> ODel))
               | [] -> "none" in
             (* a found deletion reads back with an empty value: (d key) on both sides *)
             if o_got <> s_got then add "spec:batchbuf-get" (Printf.sprintf "Get(%s) = %s, specification %s" k o_got s_got);
             let m_got = match batch_get !st (bytes_of_raw key) with
               | Some o -> entry_str (bytes_of_raw key, o) | None -> "none" in
             if m_got <> o_got then add "model:batchbuf-get" (Printf.sprintf "Get(%s): model %s impl %s" k m_got o_got)
         | _ -> ());
        if List.length !st.b_kvs >= 4 then nontrivial := 1;
        if !kinds <> [] then mismatch label (List.rev !kinds) (List.rev !detail)
    | _ -> () in
  List.iter (fun f ->
      let ic = open_in f in
      (try while true do
           let line = input_line ic in
           if String.length line > 0 then
             (try handle line with Failure m -> Printf.printf "DRIVER-ERROR case=%d seed=%s %s\n" !cur_id !cur_seed m
                                 | Not_found -> Printf.printf "DRIVER-ERROR case=%d seed=%s not-found\n" !cur_id !cur_seed
                                 | Sys_error m -> Printf.printf "DRIVER-ERROR case=%d seed=%s %s\n" !cur_id !cur_seed m)
         done with End_of_file -> ());
      close_in ic) files
