(* Function-level correspondence for the segment key index (C14): the same
   keys, quota, minimum key bytes and probes evaluated by the extracted model. *)
open Model
open Conv

let () =
  let files = List.tl (Array.to_list Sys.argv) in
  let cur_id = ref 0 and cur_seed = ref "" and quota = ref 0 and minkb = ref 0 in
  let handle line =
    let sx = Sexp.parse line in
    match Sexp.head sx with
    | "case" ->
        (match Sexp.args sx with
         | id :: Sexp.A seed :: cfg :: _ ->
             cur_id := int_of_sx id; cur_seed := seed;
             let cf = Sexp.args cfg in
             (match Sexp.field "quota" cf with Some [q] -> quota := int_of_sx q | _ -> ());
             (match Sexp.field "minkb" cf with Some [q] -> minkb := int_of_sx q | _ -> ())
         | _ -> failwith "case")
    | "index" ->
        let items = Sexp.args sx in
        let ks = List.map (function Sexp.A a -> bytes_of_atom a | _ -> failwith "key") (Sexp.field_exn "keys" items) in
        let built = List.map int_of_sx (Sexp.field_exn "built" items) in
        let probes = Sexp.field_exn "probes" items in
        let bad = ref [] in
        let nontriv = ref 0 in
        List.iter (function
            | Sexp.L [Sexp.A p; l; r; pos; st] ->
                let key = bytes_of_atom p in
                let (((info, (ml, mr)), mpos), mst) = probe_all (n_of_int !quota) (n_of_int !minkb) ks key in
                let ((mi, mhop), mnk) = info in
                let ipos = int_of_sx pos in
                let mposi = match mpos with Some x -> int_of_n x | None -> -1 in
                if mi then incr nontriv;
                if (mi <> (List.nth built 0 <> 0)) || (mi && (int_of_n mhop <> List.nth built 1 || int_of_n mnk <> List.nth built 2)) then
                  bad := Printf.sprintf "built model=(%b,%d,%d) impl=(%d,%d,%d)" mi (int_of_n mhop) (int_of_n mnk)
                      (List.nth built 0) (List.nth built 1) (List.nth built 2) :: !bad;
                if int_of_n ml <> int_of_sx l || int_of_n mr <> int_of_sx r then
                  bad := Printf.sprintf "window probe=%s model=(%d,%d) impl=(%d,%d)" p (int_of_n ml) (int_of_n mr) (int_of_sx l) (int_of_sx r) :: !bad;
                if mposi <> ipos then bad := Printf.sprintf "findkeypos probe=%s model=%d impl=%d" p mposi ipos :: !bad;
                if int_of_n mst <> int_of_sx st then bad := Printf.sprintf "findstart probe=%s model=%d impl=%d" p (int_of_n mst) (int_of_sx st) :: !bad
            | _ -> failwith "probe") probes;
        if !bad = [] then Printf.printf "CASE %d seed=%s AGREE steps=%d nontrivial=%d\n" !cur_id !cur_seed (List.length probes) !nontriv
        else begin
          Printf.printf "MISMATCH case=%d seed=%s step=0 label=index kinds=model:index\n" !cur_id !cur_seed;
          List.iter (fun b -> Printf.printf "  %s\n" b) (List.rev !bad);
          Printf.printf "CASE %d seed=%s DISAGREE steps=%d nontrivial=%d\n" !cur_id !cur_seed (List.length probes) !nontriv
        end
    | "api" ->
        (match Sexp.args sx with
         | [Sexp.A "1"] -> Printf.printf "CASE %d seed=%s AGREE steps=16 nontrivial=1\n" !cur_id !cur_seed
         | _ ->
             Printf.printf "MISMATCH case=%d seed=%s step=0 label=api kinds=spec:index-dependent\n" !cur_id !cur_seed;
             Printf.printf "CASE %d seed=%s DISAGREE steps=16 nontrivial=1\n" !cur_id !cur_seed)
    | "apidiff" -> Printf.printf "  %s\n" (String.sub line 0 (min 1500 (String.length line)))
    | _ -> () in
  List.iter (fun f ->
      let ic = open_in f in
      (try while true do
           let line = input_line ic in
           if String.length line > 0 then
             (try handle line with Failure m -> Printf.printf "DRIVER-ERROR case=%d seed=%s %s\n" !cur_id !cur_seed m)
         done with End_of_file -> ());
      close_in ic) files
