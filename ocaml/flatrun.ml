(* Flat (child-free) lock-step: replays harness traces on the extracted
   collection model and compares observations.  One verdict line per case,
   one line per mismatching step. *)
open Model
open Conv

let mismatch_name = function
  | MTop -> "model:top" | MMid -> "model:mid" | MBase -> "model:base" | MClean -> "model:clean"
  | MLL -> "model:ll" | MCached -> "model:cached" | MGets -> "model:gets" | MIter -> "model:iter"
  | MCGet -> "model:cget" | MDirtySegs -> "model:dirtysegs" | MDirtyOps -> "model:dirtyops"
  | MHeld id -> Printf.sprintf "model:held%d" (int_of_nat id) | MStore -> "model:store"
  | SpecGets -> "spec:gets" | SpecIter -> "spec:iter" | SpecCGet -> "spec:cget"
  | SpecHeld id -> Printf.sprintf "spec:held%d" (int_of_nat id)
  | SpecReopenPrefix -> "spec:reopen-prefix"
  | SpecZeroGauges -> "spec:zero-gauges-unpersisted"

let choice_of_sx (s : Sexp.t) : persist_choice =
  match s with
  | Sexp.L [Sexp.A "noop"] -> PNoop
  | Sexp.L [Sexp.A "append"] -> PAppend
  | Sexp.L [Sexp.A "compact"; n] -> PCompact (nat_of_int (int_of_sx n))
  | _ -> failwith ("choice: " ^ Sexp.to_string s)

exception Has_children

let batch_of_sx (s : Sexp.t) : segment =
  match s with
  | Sexp.L [Sexp.A "tb"; Sexp.L (Sexp.A "ops" :: ops); Sexp.L (Sexp.A "kids" :: kids)] ->
      if kids <> [] then raise Has_children;
      List.map op_entry ops
  | _ -> failwith "tb"

let label_of_sx (s : Sexp.t) : hlabel =
  match s with
  | Sexp.L [Sexp.A "batch"; tb] -> HBatch (batch_of_sx tb)
  | Sexp.L [Sexp.A "ingest"] -> HIngest
  | Sexp.L [Sexp.A "swap"; Sexp.L (Sexp.A "lt" :: n :: _)] -> HSwap (nat_of_int (int_of_sx n))
  | Sexp.L [Sexp.A "handover"] -> HHandover
  | Sexp.L [Sexp.A "pbegin"; ch] -> HPBegin (choice_of_sx ch)
  | Sexp.L [Sexp.A "pbeginfail"] -> HPBeginFail
  | Sexp.L [Sexp.A "ppublish"] -> HPPublish
  | Sexp.L (Sexp.A "notify" :: _) -> HNotify
  | Sexp.L [Sexp.A "snap"; id] -> HSnap (nat_of_int (int_of_sx id))
  | Sexp.L [Sexp.A "snapclose"; id] -> HSnapClose (nat_of_int (int_of_sx id))
  | Sexp.L [Sexp.A "close"; Sexp.A "none"] -> HClose None
  | Sexp.L [Sexp.A "close"; ch] -> HClose (Some (choice_of_sx ch))
  | Sexp.L [Sexp.A "reopen"] -> HReopen
  | _ -> failwith ("label: " ^ Sexp.to_string s)

(* reads: (r (gets ...) (iter ...) (kids ...)) *)
let reads_of_sx (s : Sexp.t) : (bytes * value) list * (bytes * value) list =
  match s with
  | Sexp.L (Sexp.A "r" :: rest) ->
      let kids = Sexp.field_exn "kids" rest in
      if kids <> [] then raise Has_children;
      (List.map kv_of_sx (Sexp.field_exn "gets" rest), List.map kv_of_sx (Sexp.field_exn "iter" rest))
  | _ -> failwith ("reads: " ^ Sexp.to_string s)

let held_of_sx (items : Sexp.t list) =
  List.map (function
      | Sexp.L [id; r] -> (nat_of_int (int_of_sx id), reads_of_sx r)
      | s -> failwith ("held: " ^ Sexp.to_string s)) items

let obs_of_sx (kind : llkind) (s : Sexp.t) : fobs =
  let items = Sexp.args s in
  let dump = Sexp.field_exn "dump" items in
  let one name = match Sexp.field_exn name dump with [x] -> x | _ -> failwith name in
  List.iter (fun n -> if stack_has_kids (one n) then raise Has_children) ["top"; "mid"; "base"; "clean"];
  let ll =
    match kind with
    | LLNone -> None
    | LLMap -> (match Sexp.field "llmap" items with
                | Some kvs -> Some [List.map (fun kv -> let (k, v) = kv_of_sx kv in
                                                (k, OSet (match v with Some b -> b | None -> []))) kvs]
                | None -> None)
    | LLStore -> (match one "ll" with
                  | Sexp.A "none" -> None
                  | x -> if stack_has_kids x then raise Has_children; flat_stack x) in
  let ll = match kind, ll with LLMap, Some [[]] -> Some [] | _ -> ll in
  let (gets, iter) = match Sexp.field_exn "reads" items with [r] -> reads_of_sx r | _ -> failwith "reads" in
  let stats = List.map int_of_sx (Sexp.field_exn "stats" items) in
  let store = match Sexp.field "store" items, Sexp.field "mapstore" items with
    | Some (f :: _), _ -> if stack_has_kids f then raise Has_children; flat_stack f
    | _, Some kvs ->
        (match kvs with
         | [] -> Some []
         | _ -> Some [List.map (fun kv -> let (k, v) = kv_of_sx kv in
                                 (k, OSet (match v with Some b -> b | None -> []))) kvs])
    | _ -> None in
  { o_top = flat_stack (one "top"); o_mid = flat_stack (one "mid"); o_base = flat_stack (one "base");
    o_clean = flat_stack (one "clean"); o_ll = ll;
    o_cached = (match one "cached" with Sexp.A "1" -> true | _ -> false);
    o_gets = gets; o_iter = iter; o_cget = List.map kv_of_sx (Sexp.field_exn "cget" items);
    o_dirty_ops = nat_of_int (List.nth stats 0); o_dirty_segs = nat_of_int (List.nth stats 2);
    o_held = held_of_sx (Sexp.field_exn "snaps" items); o_store = store }

(* non-triviality: some key lives in >= 2 different sections at this state *)
let multi_section (r : frs) : bool =
  let s = r.st in
  let ks sec = List.sort_uniq compare (List.concat_map (fun seg -> List.map fst seg) sec) in
  let secs = [ks s.top; ks (match s.mid with Some m -> m | None -> []);
              ks (match s.base with Some m -> m | None -> []); ks s.clean; ks s.ll] in
  let all = List.sort_uniq compare (List.concat secs) in
  List.exists (fun k -> List.length (List.filter (fun sk -> List.mem k sk) secs) >= 2) all

type case_state = {
  id : int; seed : string; mutable r : frs option; mutable univ : bytes list;
  mutable kind : llkind; mutable steps : int; mutable nontrivial : int;
  mutable mism : int; mutable skipped : string option; mutable has_merge : bool;
  mutable cache : bool;
}

let () =
  let files = List.tl (Array.to_list Sys.argv) in
  let cur : case_state option ref = ref None in
  let finish () =
    match !cur with
    | None -> ()
    | Some c ->
        (match c.skipped with
         | Some why -> Printf.printf "CASE %d seed=%s SKIP %s\n" c.id c.seed why
         | None -> Printf.printf "CASE %d seed=%s %s steps=%d nontrivial=%d merge=%b cache=%b\n" c.id c.seed
                     (if c.mism = 0 then "AGREE" else "DISAGREE") c.steps c.nontrivial c.has_merge c.cache);
        cur := None in
  let check c (label : string) (o : fobs) =
    match c.r with
    | None -> ()
    | Some r ->
        let ms = fcheck r c.univ o in
        if multi_section r then c.nontrivial <- c.nontrivial + 1;
        if ms <> [] then begin
          c.mism <- c.mism + 1;
          Printf.printf "MISMATCH case=%d seed=%s step=%d label=%s kinds=%s\n" c.id c.seed c.steps label
            (String.concat "," (List.map mismatch_name ms));
          let s = r.st in
          if List.exists (fun m -> List.mem m [MTop; MMid; MBase; MClean; MLL; MStore]) ms then
            Printf.printf "  model: top=%s mid=%s base=%s clean=%s ll=%s store=%s\n  impl:  top=%s mid=%s base=%s clean=%s ll=%s store=%s\n"
              (stack_sx (List.rev s.top)) (ostack_sx (Option.map List.rev s.mid))
              (ostack_sx (Option.map List.rev s.base)) (stack_sx (List.rev s.clean))
              (stack_sx (List.rev s.ll)) (stack_sx (List.rev r.store_ll))
              (ostack_sx o.o_top) (ostack_sx o.o_mid) (ostack_sx o.o_base) (ostack_sx o.o_clean)
              (ostack_sx o.o_ll) (ostack_sx o.o_store);
          if List.exists (fun m -> List.mem m [MGets; MIter; MCGet; SpecGets; SpecIter; SpecCGet]) ms then
            Printf.printf "  impl gets=%s\n  impl iter=%s\n  impl cget=%s\n  ref  gets=%s\n"
              (kvs_sx o.o_gets) (kvs_sx o.o_iter) (kvs_sx o.o_cget)
              (kvs_sx (List.map (fun k -> (k, ref_now r k)) c.univ))
        end in
  let handle_line line =
    let sx = Sexp.parse line in
    match Sexp.head sx with
    | "case" ->
        finish ();
        (match Sexp.args sx with
         | id :: Sexp.A seed :: cfg :: Sexp.L [Sexp.A "universe"; Sexp.L univ] :: _ ->
             let cf = Sexp.args cfg in
             let kind = match Sexp.field_exn "ll" cf with
               | [Sexp.A "none"] -> LLNone | [Sexp.A "store"] -> LLStore | [Sexp.A "map"] -> LLMap
               | _ -> failwith "ll kind" in
             let cache = (match Sexp.field_exn "cache" cf with [b] -> bool_of_sx b | _ -> false) in
             let c = { cache_persisted = cache; has_ll = (kind <> LLNone) } in
             cur := Some { id = int_of_sx id; seed; r = Some (finit c kind);
                           univ = List.map (function Sexp.A a -> bytes_of_atom a | _ -> failwith "univ") univ;
                           kind; steps = 0; nontrivial = 0; mism = 0; skipped = None; has_merge = false; cache }
         | _ -> failwith "case line")
    | "init" ->
        (match !cur with
         | Some c when c.skipped = None ->
             (try check c "init" (obs_of_sx c.kind (List.hd (Sexp.args sx)));
                  (match c.r with
                   | Some r0 -> (match fstep r0 (HSnap (nat_of_int 0)) with
                                 | Some r2 -> c.r <- Some { r2 with held = r0.held; held_ref = r0.held_ref }
                                 | None -> ())
                   | None -> ())
              with Has_children -> c.skipped <- Some "children")
         | _ -> ())
    | "step" ->
        (match !cur with
         | Some c when c.skipped = None ->
             (try
                let (lsx, osx) = match Sexp.args sx with [l; o] -> (l, o) | _ -> failwith "step" in
                let l = label_of_sx lsx in
                (match l with HBatch b -> if List.exists (fun (_, o) -> match o with OMerge _ -> true | _ -> false) b then c.has_merge <- true | _ -> ());
                c.steps <- c.steps + 1;
                (match c.r with
                 | None -> ()
                 | Some r ->
                     let stepped = match fstep r l with
                       | Some r' -> Some r'
                       | None ->
                           (match l with
                            | HPBegin _ ->
                                c.mism <- c.mism + 1;
                                Printf.printf "MISMATCH case=%d seed=%s step=%d label=%s kinds=model:not-enabled\n  the model does not accept the observed persist choice; it continues with its own\n"
                                  c.id c.seed c.steps (Sexp.to_string lsx);
                                List.fold_left (fun acc ch -> match acc with Some _ -> acc | None -> fstep r (HPBegin ch))
                                  None [PAppend; PCompact O; PNoop]
                            | _ -> None) in
                     (match stepped with
                      | None ->
                          c.mism <- c.mism + 1; c.r <- None;
                          Printf.printf "MISMATCH case=%d seed=%s step=%d label=%s kinds=model:not-enabled\n"
                            c.id c.seed c.steps (Sexp.to_string lsx)
                      | Some r' ->
                          c.r <- Some r';
                          (match l with
                           | HClose _ -> ()   (* only held snapshots are observed while closed; checked by the tree runner *)
                           | _ when Sexp.head osx = "noobs" -> ()   (* blind step: nothing was read, nothing to compare *)
                           | _ ->
                               (* every observation takes a Snapshot: the model does the same *)
                               let o = obs_of_sx c.kind osx in
                               check c (Sexp.head lsx) o;
                               (match l, c.kind, o.o_store with
                                | HPBegin (PCompact O), LLStore, Some f when not (full_shape_ok f) ->
                                    c.mism <- c.mism + 1;
                                    Printf.printf "MISMATCH case=%d seed=%s step=%d label=pbegin kinds=spec:full-compaction-shape\n  store after full compaction=%s\n"
                                      c.id c.seed c.steps (stack_sx f)
                                | _ -> ());
                               (match fstep r' (HSnap (nat_of_int 0)) with
                                | Some r2 -> c.r <- Some { r2 with held = r'.held; held_ref = r'.held_ref }
                                | None -> ()))))
              with Has_children -> c.skipped <- Some "children")
         | _ -> ())
    | "specviolation" ->
        (match !cur, Sexp.args sx with
         | Some c, Sexp.A kind :: rest when c.skipped = None ->
             c.mism <- c.mism + 1;
             Printf.printf "MISMATCH case=%d seed=%s step=%d label=specviolation kinds=%s\n  %s\n" c.id c.seed c.steps kind
               (String.concat " " (List.map Sexp.to_string rest))
         | _ -> ())
    | "error" ->
        (match !cur with
         | Some c -> Printf.printf "HARNESS-ERROR case=%d seed=%s %s\n" c.id c.seed (Sexp.to_string sx); c.skipped <- Some "harness-error"
         | None -> ())
    | "end" -> finish ()
    | _ -> () in
  List.iter (fun f ->
      let ic = open_in f in
      (try while true do
           let line = input_line ic in
           if String.length line > 0 then
             (try handle_line line
              with Failure m ->
                (match !cur with
                 | Some c -> Printf.printf "DRIVER-ERROR case=%d seed=%s %s\n" c.id c.seed m; c.skipped <- Some "driver-error"
                 | None -> Printf.printf "DRIVER-ERROR %s\n" m))
         done with End_of_file -> ());
      close_in ic; finish ()) files
