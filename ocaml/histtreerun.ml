(* Store history correspondence with child collections (C12, tree mode): persistence
   rounds, SnapshotPrevious walks, SnapshotRevert and reopen against the tree footer-chain
   model (PrevTree.v: th_round / th_previous / th_walk / th_revert) and, for content,
   against the reference tree of the batches behind each footer (ref_tree / ref_reads).

   kinds:  model:*  the chain model and the implementation differ (positions walked,
                    revert accepted/refused, reopen position)
           spec:*   the implementation differs from the specification (a walked snapshot,
                    a reverted or reopened store does not read as the reference tree of
                    the batches it stands for; a walk error; a refused revert of a target
                    in the current file; an endless walk) *)
open Model
open Conv

let name_of_sx = function Sexp.A a -> bytes_of_atom a | _ -> failwith "name"

let rec tbatch_of_sx (s : Sexp.t) : tbatch =
  match s with
  | Sexp.L [Sexp.A "tb"; Sexp.L (Sexp.A "ops" :: ops); Sexp.L (Sexp.A "kids" :: kids)] ->
      TB (List.map op_entry ops,
          List.map (function
              | Sexp.L [Sexp.A "c"; n; b] -> (name_of_sx n, Some (tbatch_of_sx b))
              | Sexp.L [Sexp.A "x"; n] -> (name_of_sx n, None)
              | k -> failwith ("kid: " ^ Sexp.to_string k)) kids)
  | _ -> failwith "tb"

let rec fnode_of_sx (s : Sexp.t) : fnode =
  match s with
  | Sexp.A "nil" | Sexp.A "none" -> FN ([], N0, [])
  | Sexp.L (Sexp.A "ss" :: inc :: _ :: rest) ->
      let segs = List.rev (List.map seg_of_sx (Sexp.field_exn "segs" rest)) in
      let kids = List.map (function
          | Sexp.L [n; c] -> (name_of_sx n, fnode_of_sx c)
          | k -> failwith ("fnkid: " ^ Sexp.to_string k)) (Sexp.field_exn "kids" rest) in
      FN (segs, n_of_int (int_of_sx inc), kids)
  | _ -> failwith ("fnode: " ^ Sexp.to_string s)

let rec rnode_of_sx (s : Sexp.t) : rnode =
  match s with
  | Sexp.L (Sexp.A "r" :: rest) ->
      RN (List.map kv_of_sx (Sexp.field_exn "gets" rest),
          List.map kv_of_sx (Sexp.field_exn "iter" rest),
          List.map (function
              | Sexp.L [n; Sexp.A "nil"] -> (name_of_sx n, None)
              | Sexp.L [n; c] -> (name_of_sx n, Some (rnode_of_sx c))
              | k -> failwith ("rkid: " ^ Sexp.to_string k)) (Sexp.field_exn "kids" rest))
  | _ -> failwith ("reads: " ^ Sexp.to_string s)

(* the footer tree without incarnation numbers (they are not persisted: a footer read back
   from the file carries 0) *)
let rec strip (f : fnode) : fnode =
  match f with FN (segs, _, kids) -> FN (segs, N0, List.map (fun (n, c) -> (n, strip c)) kids)

(* reads modulo the existence of EMPTY child collections: a child collection that was only
   created (no key ever written below it) is not persisted - known finding F10b, the subject
   of C20/C11, not of the history property *)
let rec rn_empty (r : rnode) : bool =
  match r with
  | RN (g, i, kids) ->
      List.for_all (fun (_, v) -> v = None) g && i = [] &&
      List.for_all (fun (_, c) -> match c with None -> true | Some x -> rn_empty x) kids
let rec rn_prune (r : rnode) : rnode =
  match r with
  | RN (g, i, kids) ->
      RN (g, i, List.filter_map (fun (n, c) ->
          match c with
          | None -> None
          | Some x -> if rn_empty x then None else Some (n, Some (rn_prune x))) kids)
let reads_eq a b = rnode_eqb (rn_prune a) (rn_prune b)

let () =
  let files = List.tl (Array.to_list Sys.argv) in
  let cur_id = ref 0 and cur_seed = ref "" in
  let tf : tfooter list ref = ref [] in        (* the model's file *)
  let pos : int list ref = ref [] in           (* file offset of each footer, same order *)
  let pending : tbatch list ref = ref [] in    (* batches of rounds that wrote nothing *)
  let univ : bytes list ref = ref [] in
  let steps = ref 0 and mism = ref 0 and nontriv = ref 0 and active = ref false in
  let cut s n = String.sub s 0 (min n (String.length s)) in
  let bad kinds detail =
    incr mism;
    Printf.printf "MISMATCH case=%d seed=%s step=%d label=history kinds=%s\n" !cur_id !cur_seed !steps (String.concat "," kinds);
    Printf.printf "  %s\n" detail in
  let finish () =
    if !active then
      Printf.printf "CASE %d seed=%s %s steps=%d nontrivial=%d\n" !cur_id !cur_seed
        (if !mism = 0 then "AGREE" else "DISAGREE") !steps !nontriv;
    active := false in
  let nth_f i = List.nth !tf i in
  let idx_of_pos p = let rec go i = function [] -> None | x :: r -> if x = p then Some i else go (i + 1) r in go 0 !pos in
  let content_of (x : tfooter) = ref_reads !univ (ref_tree x.tf_bs) in
  let has_kids (f : fnode) = match f with FN (_, _, k) -> k <> [] in
  let handle line =
    let sx = Sexp.parse line in
    match Sexp.head sx with
    | "case" ->
        finish ();
        (match Sexp.args sx with
         | id :: Sexp.A seed :: _ :: Sexp.L [Sexp.A "universe"; Sexp.L u] :: _ ->
             cur_id := int_of_sx id; cur_seed := seed; tf := []; pos := []; pending := [];
             steps := 0; mism := 0; nontriv := 0; active := true;
             univ := List.map (function Sexp.A a -> bytes_of_atom a | _ -> failwith "univ") u
         | _ -> failwith "case")
    | "round" ->
        incr steps;
        (match Sexp.args sx with
         | [tb; kind; p; Sexp.L [Sexp.A "newfile"; nf]; dump; reads] ->
             let b = tbatch_of_sx tb in
             let node = fnode_of_sx dump in
             let rd = rnode_of_sx reads in
             let k = (match kind, bool_of_sx nf with
                 | Sexp.L [Sexp.A "noop"], _ -> None
                 | Sexp.L [Sexp.A "compact"; Sexp.A "0"], _ -> Some TKNewFile
                 | Sexp.L [Sexp.A "compact"; _], _ -> Some TKPartial
                 | Sexp.L [Sexp.A "append"], true -> Some TKNewFile
                 | Sexp.L [Sexp.A "append"], false -> Some TKAppend
                 | _ -> failwith ("kind: " ^ Sexp.to_string kind)) in
             (match k with
              | None ->
                  (* nothing was written: the batch must not have changed the content (it is kept,
                     so that later contents are computed from everything executed) *)
                  pending := !pending @ [b]
              | Some k ->
                  (* batches of earlier no-op rounds travel with this one: the model's content of the
                     new footer is everything executed so far *)
                  let bs_before = tcur_bs !tf @ !pending in
                  let f' = th_round k !tf b node in
                  (* splice the pending batches into the new footer's content *)
                  let f' = (match List.rev f' with
                      | last :: rest -> List.rev ({ last with tf_bs = bs_before @ [b] } :: rest)
                      | [] -> f') in
                  pending := [];
                  (match k with TKNewFile -> pos := [int_of_sx p] | _ -> pos := !pos @ [int_of_sx p]);
                  tf := f';
                  if has_kids node then incr nontriv);
             (* specification: the store now reads as the reference tree of everything executed *)
             let want = ref_reads !univ (ref_tree (tcur_bs !tf @ !pending)) in
             if not (reads_eq want rd) then bad ["spec:round-content"] (cut line 600)
         | _ -> failwith "round")
    | "walk" ->
        incr steps;
        let items = Sexp.args sx in
        let got = List.filter_map (function
            | Sexp.L [Sexp.A "err"; _] -> None
            | Sexp.L [p; d; r] -> Some (int_of_sx p, strip (fnode_of_sx d), rnode_of_sx r)
            | _ -> None) items in
        let haderr = List.exists (function Sexp.L [Sexp.A "err"; _] -> true | _ -> false) items in
        let n = List.length !tf in
        if n > 0 then begin
          let want = List.map int_of_nat (th_walk (nat_of_int (n + 1)) !tf (nat_of_int (n - 1))) in
          if want <> [] then incr nontriv;
          if haderr then bad ["spec:previous-error"] (cut line 400)
          else if List.length got >= 40 then bad ["spec:walk-endless"] (cut line 300)
          else if List.map (fun i -> List.nth !pos i) want <> List.map (fun (p, _, _) -> p) got then
            bad ["model:walk-chain"; "spec:walk-chain"]
              (Printf.sprintf "want=%s got=%s"
                 (String.concat "," (List.map (fun i -> string_of_int (List.nth !pos i)) want))
                 (String.concat "," (List.map (fun (p, _, _) -> string_of_int p) got)))
          else
            List.iter2 (fun i (p, d, r) ->
                let x = nth_f i in
                if strip x.tf_node <> d then bad ["spec:previous-content-changed"] (Printf.sprintf "footer at %d: segments differ from what was written" p)
                else if not (reads_eq (content_of x) r) then
                  bad ["spec:previous-content"] (Printf.sprintf "footer at %d does not read as the content exposed then" p)) want got
        end else if got <> [] then bad ["model:walk-chain"] "walk on empty history"
    | "revert" ->
        incr steps;
        (match Sexp.args sx with
         | [tp; res; np; dump; reads] ->
             let node = strip (fnode_of_sx dump) in
             let rd = rnode_of_sx reads in
             (match idx_of_pos (int_of_sx tp), res with
              | Some t, Sexp.A "ok" ->
                  (match th_revert !tf (nat_of_int t) with
                   | Some f' ->
                       let target = nth_f t in
                       if node <> strip target.tf_node then bad ["model:revert-content"; "spec:revert-content"] (cut line 500)
                       else if not (reads_eq (content_of target) rd) then bad ["spec:revert-content"] (cut line 500);
                       tf := f'; pos := !pos @ [int_of_sx np]; pending := []; incr nontriv
                   | None -> bad ["model:revert"] "the model refuses this target")
              | Some t, _ ->
                  (* a target inside the current file must be revertible, unless neither it nor the
                     current footer holds a segment through which the file can be found *)
                  (match th_revert !tf (nat_of_int t) with
                   | Some _ -> bad ["spec:revert-refused"] (Sexp.to_string res)
                   | None -> ())
              | None, Sexp.A "ok" -> if !tf <> [] then bad ["model:revert"] "reverted to a footer the model does not know"
              | None, _ -> ())
         | _ -> failwith "revert")
    | "reopen" ->
        incr steps;
        (match Sexp.args sx with
         | [p; dump; reads] ->
             let node = strip (fnode_of_sx dump) in
             let rd = rnode_of_sx reads in
             if !tf = [] then begin
               if fn_any_segs node then bad ["model:reopen"] "non-empty store where the model has none"
             end else begin
               let cur = nth_f (List.length !tf - 1) in
               if node <> strip cur.tf_node then bad ["model:reopen"; "spec:reopen-content"] (cut line 500)
               else if not (reads_eq (content_of cur) rd) then bad ["spec:reopen-content"] (cut line 500);
               if int_of_sx p <> List.nth !pos (List.length !pos - 1) then bad ["model:reopen-footer"] (Sexp.to_string p)
             end;
             (* batches of no-op rounds were never persisted: they must have had no effect *)
             pending := []
         | _ -> failwith "reopen")
    | "error" -> bad ["harness-error"] line
    | "end" -> finish ()
    | _ -> () in
  List.iter (fun f ->
      let ic = open_in f in
      (try while true do
           let line = input_line ic in
           if String.length line > 0 then
             (try handle line with Failure m -> Printf.printf "DRIVER-ERROR case=%d seed=%s %s\n" !cur_id !cur_seed m; incr mism)
         done with End_of_file -> ());
      close_in ic; finish ()) files
