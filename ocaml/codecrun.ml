(* Codec correspondence (C19): the op/keyLen/valLen word, page alignment,
   limits through the Batch API, and the byte image of persisted segments. *)
open Model
open Conv

let read_file (path : string) : bytes =
  let ic = open_in_bin path in
  let n = in_channel_length ic in
  let s = really_input_string ic n in
  close_in ic;
  List.init n (fun i -> n_of_int (Char.code s.[i]))

(* big naturals: decimal string -> N (values up to 2^64) *)
let n_of_string (s : string) : n =
  let acc = ref N0 in
  String.iter (fun c -> acc := N.add (N.mul !acc (n_of_int 10)) (n_of_int (Char.code c - 48))) s;
  !acc
let n_of_sx = function Sexp.A a -> n_of_string a | _ -> failwith "n"
let rec string_of_n (x : n) : string =
  let ten = n_of_int 10 in
  if N.ltb x ten then string_of_int (int_of_n x)
  else string_of_n (N.div x ten) ^ string_of_int (int_of_n (N.modulo x ten))

let () =
  let files = List.tl (Array.to_list Sys.argv) in
  let cur_id = ref 0 and cur_seed = ref "" in
  let report kinds detail n nt =
    if kinds = [] then Printf.printf "CASE %d seed=%s AGREE steps=%d nontrivial=%d\n" !cur_id !cur_seed n nt
    else begin
      Printf.printf "MISMATCH case=%d seed=%s step=0 label=codec kinds=%s\n" !cur_id !cur_seed (String.concat "," kinds);
      List.iter (fun d -> Printf.printf "  %s\n" d) detail;
      Printf.printf "CASE %d seed=%s DISAGREE steps=%d nontrivial=%d\n" !cur_id !cur_seed n nt
    end in
  let handle line =
    let sx = Sexp.parse line in
    match Sexp.head sx with
    | "case" ->
        (match Sexp.args sx with
         | id :: Sexp.A seed :: _ -> cur_id := int_of_sx id; cur_seed := seed
         | _ -> failwith "case")
    | "codec" ->
        let items = Sexp.args sx in
        let bad = ref [] in
        let shift56 = N.shiftl (n_of_int 1) (n_of_int 56) in
        let words = Sexp.field_exn "words" items in
        List.iter (function
            | Sexp.L [op; kl; vl; w; o2; k2; v2] ->
                let opc = N.mul (n_of_sx op) shift56 in
                let mw = encode opc (n_of_sx kl) (n_of_sx vl) in
                if mw <> n_of_sx w then bad := Printf.sprintf "encode(%s,%s,%s) model=%s impl=%s" (Sexp.to_string op) (Sexp.to_string kl) (Sexp.to_string vl) (string_of_n mw) (Sexp.to_string w) :: !bad;
                let ((mo, mk), mv) = decode (n_of_sx w) in
                if mo <> N.mul (n_of_sx o2) shift56 || mk <> n_of_sx k2 || mv <> n_of_sx v2 then
                  bad := Printf.sprintf "decode(%s)" (Sexp.to_string w) :: !bad
            | _ -> failwith "word") words;
        let p = n_of_int 4096 in
        List.iter (function
            | Sexp.L [pos; c; f; o] ->
                let x = n_of_sx pos in
                if pageAlignCeil p x <> n_of_sx c || pageAlignFloor p x <> n_of_sx f || pageOffset x p <> n_of_sx o then
                  bad := Printf.sprintf "align(%s)" (Sexp.to_string pos) :: !bad
            | _ -> failwith "align") (Sexp.field_exn "aligns" items);
        report (if !bad = [] then [] else ["model:codec-word"]) (List.rev !bad) (List.length words) (List.length words)
    | "limits" ->
        let items = Sexp.args sx in
        let get name = match Sexp.field_exn name items with [Sexp.A a] -> a | _ -> "?" in
        let ok = get "key-2^24" = "keytoolarge" && get "key-2^24-1" = "ok" && get "exec" = "ok"
                 && get "before" = "x31" && get "after" = "x32" && get "maxkey" = "x79" && get "toolong" = "nil" in
        (* the model's guard at the same lengths *)
        let g1 = mutate_guard (N.shiftl (n_of_int 1) (n_of_int 24)) (n_of_int 1) in
        let g2 = mutate_guard (N.sub (N.shiftl (n_of_int 1) (n_of_int 24)) (n_of_int 1)) (n_of_int 1) in
        let mok = (g1 = Some ErrKeyTooLarge) && (g2 = None) in
        report ((if ok then [] else ["spec:limits"]) @ (if mok then [] else ["model:guard"])) [line] 1 1
    | "segfile" ->
        (match Sexp.args sx with
         | [Sexp.A path; Sexp.L [Sexp.A "loc"; ko; kb; bo; bb]; seg] ->
             let file = read_file path in
             let s = seg_of_sx seg in
             let loc = { kvsOffset = n_of_sx ko; kvsBytes = n_of_sx kb; bufOffset = n_of_sx bo; bufBytes = n_of_sx bb;
                         totOpsSet = N0; totOpsDel = N0; totKeyByte = N0; totValByte = N0 } in
             let kinds = ref [] in
             (match load_segment file loc with
              | Some s' -> if s' <> s then kinds := "model:load-segment" :: !kinds
              | None -> kinds := "model:load-segment" :: !kinds);
             (* the model's writer puts the same bytes at the same offsets *)
             let mloc = persist_segment_loc (n_of_int 4096) (n_of_int 4096) s in
             if mloc.kvsOffset <> loc.kvsOffset || mloc.kvsBytes <> loc.kvsBytes || mloc.bufOffset <> loc.bufOffset || mloc.bufBytes <> loc.bufBytes then
               kinds := "model:segment-layout" :: !kinds;
             if not (roundtrip_check (n_of_int 4096) (n_of_int 4096) s) then kinds := "model:roundtrip" :: !kinds;
             report !kinds [String.sub line 0 (min 400 (String.length line))] (List.length s) (List.length s)
         | _ -> failwith "segfile")
    | _ -> () in
  List.iter (fun f ->
      let ic = open_in f in
      (try while true do
           let line = input_line ic in
           if String.length line > 0 then
             (try handle line with Failure m -> Printf.printf "DRIVER-ERROR case=%d seed=%s %s\n" !cur_id !cur_seed m
                                 | Sys_error m -> Printf.printf "DRIVER-ERROR case=%d seed=%s %s\n" !cur_id !cur_seed m)
         done with End_of_file -> ());
      close_in ic) files
