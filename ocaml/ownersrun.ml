(* Live tie of the ownership model (coq/Owners.v, coq/OwnersScenarios.v): for every
   scripted scenario the director family "owners" ran against the real library, the
   AddRef/DecRef events recorded from the code must equal, event for event, the events
   of the extracted run_events on the scenario's operation list - modulo a renaming of
   object ids (ids are canonicalised by first occurrence per kind on both sides). *)
open Model
open Conv

(* the scenarios of OwnersScenarios.v run through run_events, those of
   OwnersRevertScenarios.v (SnapshotPrevious, SnapshotRevert, OpenCollection) through
   xrun_events of the extended system (OwnersRevert.v) *)
type oplist = Old of op0 list | Ext of xop list

let events_of = function Old ops -> run_events ops | Ext ops -> xrun_events ops
let nfiles_of = function Old ops -> run_nfiles ops | Ext ops -> xrun_nfiles ops
(* the precondition of PROGRESS (coq/OwnersProgress.v: legal / xlegal) evaluated on every
   step of the scenario, in the state the model is in: Some i = step i is not legal *)
let illegal_of = function Old ops -> first_illegal ops | Ext ops -> xfirst_illegal ops

let scenarios : (string * oplist) list = List.map (fun (n, l) -> (n, Old l)) [
  "append_rounds_snapshots", sc_append_rounds_snapshots;
  "heap_iter_snapshot_closed_first", sc_heap_iter_snapshot_closed_first;
  "force_compaction_child", sc_force_compaction_child;
  "partial_compaction_cached", sc_partial_compaction_cached;
  "drop_recreate_persister_held", sc_drop_recreate_persister_held;
  "history_get_idle_cycle", sc_history_get_idle_cycle;
  "iter_kinds_fully_persisted", sc_iter_kinds_fully_persisted;
  "store_snapshot_iterators", sc_store_snapshot_iterators;
  "handles_between_gates", sc_handles_between_gates;
  "child_only_full_compaction", sc_child_only_full_compaction;
  "drop_only_child_new_file", sc_drop_only_child_new_file;
  "iterator_error_return", sc_iterator_error_return;
  "close_collection_before_handles", sc_close_collection_before_handles;
] @ List.map (fun (n, l) -> (n, Ext l)) [
  "revert_previous_held", sc_revert_previous_held;
  "revert_child_previous_held", sc_revert_child_previous_held;
  "revert_previous_closed_first", sc_revert_previous_closed_first;
  "revert_child_only", sc_revert_child_only;
]

let kind_name = function
  | KFile -> "file" | KMmap -> "mmap" | KFooter -> "footer" | KStack -> "stack" | KWrap -> "wrap"

(* (kind, id, after) with ids renamed to 1, 2, ... in order of first occurrence per kind *)
let canon (evs : (string * int * int) list) : (string * int * int) list =
  let tbl : (string * int, int) Hashtbl.t = Hashtbl.create 64 in
  let next : (string, int) Hashtbl.t = Hashtbl.create 8 in
  List.map (fun (k, id, a) ->
      let c = match Hashtbl.find_opt tbl (k, id) with
        | Some c -> c
        | None ->
            let n = (match Hashtbl.find_opt next k with Some n -> n | None -> 0) + 1 in
            Hashtbl.replace next k n; Hashtbl.replace tbl (k, id) n; n in
      (k, c, a)) evs

let ev_str (k, id, a) = Printf.sprintf "(%s #%d -> %d)" k id a

let () =
  let files = List.tl (Array.to_list Sys.argv) in
  let cur_id = ref 0 and cur_seed = ref "" in
  let handle line =
    let sx = Sexp.parse line in
    match Sexp.head sx with
    | "case" ->
        (match Sexp.args sx with
         | id :: Sexp.A seed :: _ -> cur_id := int_of_sx id; cur_seed := seed
         | _ -> failwith "case")
    | "owners" ->
        let items = Sexp.args sx in
        let name = match Sexp.field_exn "scenario" items with [Sexp.A n] -> n | _ -> failwith "scenario" in
        let real = List.map (function
            | Sexp.L [Sexp.A k; id; a] -> (k, int_of_sx id, int_of_sx a)
            | _ -> failwith "event") (Sexp.field_exn "events" items) in
        let nsteps = match Sexp.field "steps" items with Some (n :: _) -> int_of_sx n | _ -> 0 in
        let choices = match Sexp.field "choices" items with
          | Some l -> String.concat " " (List.map Sexp.to_string l) | None -> "" in
        let fail k detail =
          Printf.printf "MISMATCH case=%d seed=%s step=%d label=%s kinds=model:owner-events\n" !cur_id !cur_seed k name;
          List.iter (fun d -> Printf.printf "  %s\n" d) detail;
          Printf.printf "CASE %d seed=%s DISAGREE steps=%d nontrivial=1\n" !cur_id !cur_seed nsteps in
        (match List.assoc_opt name scenarios with
         | None -> fail 0 ["no operation list for this scenario in OwnersScenarios.v / OwnersRevertScenarios.v"]
         | Some ops ->
             (* a scenario the real code executes must be legal use in the model: else the
                precondition of C15_legal_use_never_faults is stronger than what the harness does *)
             match illegal_of ops with
             | Some i ->
                 Printf.printf "MISMATCH case=%d seed=%s step=%d label=%s kinds=model:owner-illegal-step\n"
                   !cur_id !cur_seed (int_of_nat i) name;
                 Printf.printf "  operation %d of the scenario is not legal (OwnersProgress.legal) where the model applies it\n"
                   (int_of_nat i);
                 Printf.printf "CASE %d seed=%s DISAGREE steps=%d nontrivial=1\n" !cur_id !cur_seed nsteps
             | None ->
             match events_of ops with
             | None -> fail 0 ["the model refuses the scenario's operation list"]
             | Some mev ->
                 let model = canon (List.map (fun ((k, o), a) -> (kind_name k, int_of_nat o, int_of_nat a)) mev) in
                 let real = canon real in
                 let rec cmp i m r =
                   match m, r with
                   | [], [] -> None
                   | x :: m', y :: r' when x = y -> cmp (i + 1) m' r'
                   | _ -> Some (i, (match m with x :: _ -> ev_str x | [] -> "(end of events)"),
                                   (match r with y :: _ -> ev_str y | [] -> "(end of events)")) in
                 let nfiles_code = match Sexp.field "nfiles" items with Some (n :: _) -> int_of_sx n | _ -> -1 in
                 let nfiles_model = match nfiles_of ops with Some n -> int_of_nat n | None -> -1 in
                 (match cmp 0 model real with
                  | None when nfiles_code >= 0 && nfiles_code <> nfiles_model ->
                      Printf.printf "MISMATCH case=%d seed=%s step=%d label=%s kinds=model:owner-files\n" !cur_id !cur_seed nsteps name;
                      Printf.printf "  all %d events agree; data files left: model %d, code %d\n" (List.length model) nfiles_model nfiles_code;
                      Printf.printf "CASE %d seed=%s DISAGREE steps=%d nontrivial=1\n" !cur_id !cur_seed nsteps
                  | None ->
                      Printf.printf "CASE %d seed=%s AGREE steps=%d nontrivial=1\n" !cur_id !cur_seed nsteps
                  | Some (i, me, re) ->
                      let ctx l = String.concat " " (List.map ev_str
                          (List.filteri (fun j _ -> j >= i - 6 && j < i) l)) in
                      fail i ([Printf.sprintf "event %d of %d (model) / %d (code): model %s, code %s" i
                                (List.length model) (List.length real) me re;
                              Printf.sprintf "before (model): %s" (ctx model);
                              Printf.sprintf "before (code):  %s" (ctx real);
                              Printf.sprintf "choices of the code: %s" choices]
                      @ (match Sys.getenv_opt "VERIF_OWNERS_DUMP" with
                         | Some _ ->
                             let after l = String.concat " " (List.map ev_str
                                 (List.filteri (fun j _ -> j >= i && j < i + 16) l)) in
                             [Printf.sprintf "from there (model): %s" (after model);
                              Printf.sprintf "from there (code):  %s" (after real)]
                         | None -> []))))
    | _ -> () in
  List.iter (fun f ->
      let ic = open_in f in
      (try while true do
           let line = input_line ic in
           if String.length line > 0 then
             (try handle line with Failure m -> Printf.printf "DRIVER-ERROR case=%d seed=%s %s\n" !cur_id !cur_seed m)
         done with End_of_file -> ());
      close_in ic) files
