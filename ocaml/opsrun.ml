(* Live tie of coq/StoreOps.v (C06): the director's family "ops" forces the kind of every
   persistence attempt, fails chosen file operations and reports what the real store did; the
   extracted [predict] is evaluated on the same options, kinds and failure oracle and must
   agree on: error / committed / kind / served content / data files after every attempt, the
   directory after Close, what OpenStore serves (or that it fails), the directory afterwards.
   Independently of the model, a reopened store that lacks a committed round (or cannot be
   opened) is a violation: kind spec:ops-lost-after-reopen. *)
open Opsmodel

let rec nat_of_int n = if n <= 0 then O else S (nat_of_int (n - 1))
let rec int_of_nat = function O -> 0 | S n -> 1 + int_of_nat n

let int_of_sx = function Sexp.A s -> int_of_string s | _ -> failwith "int expected"
let ints_of_sx = function Sexp.L l -> List.map int_of_sx l | _ -> failwith "list expected"
let atom = function Sexp.A s -> s | _ -> failwith "atom expected"
let show l = "(" ^ String.concat " " (List.map string_of_int l) ^ ")"

let kind_of_string = function
  | "noop" -> RNoop | "append" -> RAppend | "partial" -> RPartial | "full" -> RFull
  | s -> failwith ("kind " ^ s)
let string_of_kind = function RNoop -> "noop" | RAppend -> "append" | RPartial -> "partial" | RFull -> "full"

let field1 name items = match Sexp.field name items with Some (x :: _) -> x | _ -> failwith ("missing " ^ name)
let flag name items = int_of_sx (field1 name items) <> 0

let subset a b = List.for_all (fun x -> List.mem x b) a

let () =
  let files = List.tl (Array.to_list Sys.argv) in
  let cur_id = ref 0 and cur_seed = ref "" in
  let handle line =
    let sx = Sexp.parse line in
    match Sexp.head sx with
    | "case" ->
        (match Sexp.args sx with
         | id :: Sexp.A seed :: _ -> cur_id := int_of_sx id; cur_seed := seed
         | _ -> failwith "case")
    | "ops" ->
        let items = Sexp.args sx in
        let oi = Sexp.field_exn "opts" items in
        let o = { noSync = flag "nosync" oi; compactionSync = flag "csync" oi;
                  midSync = flag "midsync" oi; keepFiles = flag "keepfiles" oi } in
        let kinds = match Sexp.field_exn "kinds" items with
          | [Sexp.L l] -> List.map (fun a -> kind_of_string (atom a)) l | _ -> failwith "kinds" in
        let inj = match Sexp.field_exn "inject" items with
          | [Sexp.L l] -> List.map (function
              | Sexp.L (r :: Sexp.A name :: ix :: _) -> (int_of_sx r, name, int_of_sx ix)
              | _ -> failwith "inject") l
          | _ -> failwith "inject" in
        let oracle n s =
          let n = int_of_nat n and s = int_of_nat s in
          List.exists (fun (r, _, ix) -> r = n && ix = s) inj in
        let rounds = match Sexp.field_exn "rounds" items with [Sexp.L l] -> l | _ -> failwith "rounds" in
        let shape = match Sexp.field "shape" items with Some [Sexp.A s] -> s | _ -> "" in
        let (ocs, ds) = predict o kinds oracle in
        let model_kinds = ref false and first_bad = ref (-1) in
        let details = ref [] in
        let bad step fmt = Printf.ksprintf (fun s ->
            model_kinds := true;
            if !first_bad < 0 then first_bad := step;
            details := s :: !details) fmt in
        if shape <> "" then bad 0 "the recorded file operations deviate from the model's step list: %s" shape;
        if List.length rounds <> List.length ocs then
          bad (List.length rounds) "attempts: model %d, implementation %d" (List.length ocs) (List.length rounds);
        let content = ref [] and last_obs = ref [] and trig = ref 0 in
        List.iteri (fun i r ->
            match List.nth_opt ocs i with
            | None -> ()
            | Some oc ->
                let (obs_kind, ri) = match r with
                  | Sexp.L (_ :: Sexp.A ok :: rest) -> (ok, rest) | _ -> failwith "round" in
                let perr = flag "perr" ri and onerr = int_of_sx (field1 "onerr" ri) in
                let committed = flag "committed" ri and valok = flag "valok" ri in
                let obs_content = ints_of_sx (field1 "content" ri) in
                let obs_files = ints_of_sx (field1 "files" ri) in
                trig := !trig + int_of_sx (field1 "trig" ri);
                if oc.ro_committed then content := !content @ List.map int_of_nat oc.ro_handed;
                let m_files = List.filter_map (fun (n, f) -> if f.f_exists then Some (int_of_nat n) else None) oc.ro_files in
                if oc.ro_error <> perr then
                  bad i "attempt %d (%s): Persist error: model %b, implementation %b" i (string_of_kind oc.ro_kind) oc.ro_error perr;
                if (if oc.ro_onerror then 1 else 0) <> onerr then
                  bad i "attempt %d (%s): OnError calls: model %d, implementation %d" i (string_of_kind oc.ro_kind)
                    (if oc.ro_onerror then 1 else 0) onerr;
                if oc.ro_committed <> committed then
                  bad i "attempt %d (%s): footer replaced: model %b, implementation %b" i (string_of_kind oc.ro_kind) oc.ro_committed committed;
                if obs_kind <> "unknown" && obs_kind <> string_of_kind oc.ro_kind then
                  bad i "attempt %d: kind: model %s, implementation %s" i (string_of_kind oc.ro_kind) obs_kind;
                if !content <> obs_content || not valok then
                  bad i "attempt %d (%s): served rounds: model %s, implementation %s%s" i (string_of_kind oc.ro_kind)
                    (show !content) (show obs_content) (if valok then "" else " (a value is wrong)");
                if m_files <> obs_files then
                  bad i "attempt %d (%s): data files afterwards: model %s, implementation %s" i (string_of_kind oc.ro_kind)
                    (show m_files) (show obs_files);
                last_obs := obs_content) rounds;
        let nr = List.length rounds in
        let fin = Sexp.field_exn "final" items in
        let dir = ints_of_sx (field1 "dir" fin) and dirafter = ints_of_sx (field1 "dirafter" fin) in
        let (re_status, re_file, re_content, re_valok) = match Sexp.field_exn "reopen" fin with
          | [Sexp.A st; f; Sexp.L ci; Sexp.L vi] ->
              (st, int_of_sx f, ints_of_sx (field1 "content" [Sexp.L ci]), flag "valok" [Sexp.L vi])
          | _ -> failwith "reopen" in
        let m_dir = List.map int_of_nat ds.ds_dir and m_dirafter = List.map int_of_nat ds.ds_dir_reopened in
        if m_dir <> dir then bad nr "directory after Close: model %s, implementation %s" (show m_dir) (show dir);
        let m_re = match ds.ds_reopen with
          | ReopenEmpty -> "empty"
          | ReopenError -> "error"
          | ReopenServes (f, d) -> Printf.sprintf "serves file %d rounds %s" (int_of_nat f) (show (List.map int_of_nat d.d_content)) in
        let i_re = match re_status with
          | "serves" -> Printf.sprintf "serves file %d rounds %s%s" re_file (show re_content) (if re_valok then "" else " (a value is wrong)")
          | s -> s in
        if m_re <> i_re then bad nr "reopen: model %s, implementation %s" m_re i_re;
        if m_dirafter <> dirafter then
          bad nr "directory after the reopen: model %s, implementation %s" (show m_dirafter) (show dirafter);
        (* the property itself, on the implementation's own observations *)
        let lost =
          re_status = "error"
          || (re_status = "empty" && !last_obs <> [])
          || (re_status = "serves" && (not (subset !last_obs re_content) || not re_valok)) in
        let kinds_out = (if !model_kinds then ["model:ops-outcome"] else []) @ (if lost then ["spec:ops-lost-after-reopen"] else []) in
        let nt = if !trig > 0 then 1 else 0 in
        if kinds_out = [] then
          Printf.printf "CASE %d seed=%s AGREE steps=%d nontrivial=%d\n" !cur_id !cur_seed nr nt
        else begin
          let step = if !first_bad >= 0 then !first_bad else nr in
          Printf.printf "MISMATCH case=%d seed=%s step=%d label=ops kinds=%s\n" !cur_id !cur_seed step (String.concat "," kinds_out);
          List.iter (fun d -> Printf.printf "  %s\n" d) (List.rev !details);
          if lost then
            Printf.printf "  the store had committed rounds %s; after Close, OpenStore: %s (model: %s)\n" (show !last_obs) i_re m_re;
          Printf.printf "  kinds %s inject %s\n"
            (String.concat " " (List.map string_of_kind kinds))
            (String.concat " " (List.map (fun (r, n, _) -> Printf.sprintf "(%d %s)" r n) inj));
          Printf.printf "  %s\n" (String.sub line 0 (min 1800 (String.length line)));
          Printf.printf "CASE %d seed=%s DISAGREE steps=%d nontrivial=%d\n" !cur_id !cur_seed nr nt
        end
    | _ -> () in
  List.iter (fun f ->
      let ic = open_in f in
      (try while true do
           let line = input_line ic in
           if String.length line > 0 then
             (try handle line with Failure m -> Printf.printf "DRIVER-ERROR case=%d seed=%s %s\n" !cur_id !cur_seed m)
         done with End_of_file -> ());
      close_in ic) files
