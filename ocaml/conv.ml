(* Conversions between trace atoms and the extracted model's data types. *)
open Model

let rec nat_of_int (i : int) : nat = if i <= 0 then O else S (nat_of_int (i - 1))
let rec int_of_nat (n : nat) : int = match n with O -> 0 | S m -> 1 + int_of_nat m

let rec pos_of_int (i : int) : positive =
  if i = 1 then XH else if i land 1 = 0 then XO (pos_of_int (i lsr 1)) else XI (pos_of_int (i lsr 1))
let n_of_int (i : int) : n = if i = 0 then N0 else Npos (pos_of_int i)
let rec int_of_pos = function XH -> 1 | XO p -> 2 * int_of_pos p | XI p -> 2 * int_of_pos p + 1
let int_of_n = function N0 -> 0 | Npos p -> int_of_pos p

let hexval c =
  match c with
  | '0'..'9' -> Char.code c - 48
  | 'a'..'f' -> Char.code c - 87
  | 'A'..'F' -> Char.code c - 55
  | _ -> failwith "hex"

(* "x6162" -> bytes; "nil" is handled by value_of_atom *)
let bytes_of_atom (a : string) : bytes =
  if String.length a = 0 || a.[0] <> 'x' then failwith ("bytes atom: " ^ a) else
  let n = (String.length a - 1) / 2 in
  List.init n (fun i -> n_of_int (16 * hexval a.[1 + 2*i] + hexval a.[2 + 2*i]))

let value_of_atom (a : string) : value = if a = "nil" then None else Some (bytes_of_atom a)

let atom_of_bytes (b : bytes) : string =
  "x" ^ String.concat "" (List.map (fun x -> Printf.sprintf "%02x" (int_of_n x)) b)
let atom_of_value = function None -> "nil" | Some b -> atom_of_bytes b

let int_of_sx = function Sexp.A a -> int_of_string a | _ -> failwith "int expected"
let bool_of_sx s = int_of_sx s <> 0

let op_entry (s : Sexp.t) : entry =
  match s with
  | Sexp.L [Sexp.A "s"; Sexp.A k; Sexp.A v] -> (bytes_of_atom k, OSet (bytes_of_atom v))
  | Sexp.L [Sexp.A "d"; Sexp.A k] -> (bytes_of_atom k, ODel)
  | Sexp.L [Sexp.A "m"; Sexp.A k; Sexp.A v] -> (bytes_of_atom k, OMerge (bytes_of_atom v))
  | _ -> failwith ("entry: " ^ Sexp.to_string s)

let entry_sx ((k, o) : entry) : string =
  match o with
  | OSet v -> Printf.sprintf "(s %s %s)" (atom_of_bytes k) (atom_of_bytes v)
  | ODel -> Printf.sprintf "(d %s)" (atom_of_bytes k)
  | OMerge v -> Printf.sprintf "(m %s %s)" (atom_of_bytes k) (atom_of_bytes v)
let seg_sx (s : segment) = "(seg " ^ String.concat " " (List.map entry_sx s) ^ ")"
let stack_sx (st : segment list) = "(" ^ String.concat " " (List.map seg_sx st) ^ ")"
let ostack_sx = function None -> "nil" | Some st -> stack_sx st
let kvs_sx (l : (bytes * value) list) =
  "(" ^ String.concat " " (List.map (fun (k, v) -> "(" ^ atom_of_bytes k ^ " " ^ atom_of_value v ^ ")") l) ^ ")"

(* (seg e ...) *)
let seg_of_sx (s : Sexp.t) : segment =
  match s with
  | Sexp.L (Sexp.A "seg" :: es) -> List.map op_entry es
  | _ -> failwith "seg"

(* a dumped stack: nil | (ss incar hasll (segs ...) (kids ...)) ; flat view: its own segments *)
let flat_stack (s : Sexp.t) : segment list option =
  match s with
  | Sexp.A "nil" -> None
  | Sexp.L (Sexp.A "ss" :: _ :: _ :: rest) ->
      Some (List.map seg_of_sx (Sexp.field_exn "segs" rest))
  | _ -> failwith ("stack: " ^ Sexp.to_string s)

let stack_has_kids (s : Sexp.t) : bool =
  match s with
  | Sexp.L (Sexp.A "ss" :: _ :: _ :: rest) -> Sexp.field_exn "kids" rest <> []
  | _ -> false

let kv_of_sx (s : Sexp.t) : bytes * value =
  match s with
  | Sexp.L [Sexp.A k; Sexp.A v] -> (bytes_of_atom k, value_of_atom v)
  | _ -> failwith ("kv: " ^ Sexp.to_string s)
