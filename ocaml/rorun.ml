(* openStore / ReadOnly correspondence (C18): the directory state, options
   and recorded effects of each case against the model's open_store. *)
open Model
open Conv

let () =
  let files = List.tl (Array.to_list Sys.argv) in
  let cur_id = ref 0 and cur_seed = ref "" and ro = ref false and keep = ref false in
  let handle line =
    let sx = Sexp.parse line in
    match Sexp.head sx with
    | "case" ->
        (match Sexp.args sx with
         | id :: Sexp.A seed :: cfg :: _ ->
             cur_id := int_of_sx id; cur_seed := seed;
             let cf = Sexp.args cfg in
             (match Sexp.field "readonly" cf with Some [q] -> ro := bool_of_sx q | _ -> ());
             (match Sexp.field "keep" cf with Some [q] -> keep := bool_of_sx q | _ -> ())
         | _ -> failwith "case")
    | "ro" ->
        let items = Sexp.args sx in
        let dir = Sexp.field_exn "dir" items in
        let has_badname = List.exists (function Sexp.L [_; Sexp.A st] -> String.length st > 7 && String.sub st 0 7 = "badname" | _ -> false) dir in
        let d = List.filter_map (function
            | Sexp.L [s; Sexp.A st] ->
                let seq = int_of_sx s in
                if seq < 0 then None else
                Some (n_of_int seq, (match st with
                    | "valid" -> FValid (n_of_int seq)
                    | "nofooter" -> FNoFooter
                    | "badheader" -> FBadHeader
                    | _ -> FUnopenable))
            | _ -> None) dir in
        let o = { o_readonly = !ro; o_keepfiles = !keep } in
        let (res, effs) = open_store o d in
        let impl_opened = (match Sexp.field_exn "opened" items with [Sexp.A s] -> s | _ -> "?") in
        let impl_effs = List.filter_map (function
            | Sexp.L [Sexp.A "open"; s; r; _] -> Some (EOpen (n_of_int (max 0 (int_of_sx s)), bool_of_sx r))
            | Sexp.L [Sexp.A "remove"; s] -> Some (ERemove (n_of_int (max 0 (int_of_sx s))))
            | _ -> None) (Sexp.field_exn "effects" items) in
        let kinds = ref [] in
        let add k = kinds := k :: !kinds in
        (* model vs implementation (directories with unparseable candidate names are outside the model) *)
        if not has_badname then begin
          (match res, impl_opened with
           | (Opened _ | OpenedEmpty), "ok" -> ()
           | OpenFailed, "failed" -> ()
           | _ -> add "model:open-result");
          let opens l = List.filter (function EOpen _ -> true | _ -> false) l in
          let removes l = List.sort compare (List.filter (function ERemove _ -> true | _ -> false) l) in
          (* the implementation opens more files later (persist); compare the prefix that openStore performs *)
          let rec prefix a b = match a, b with [], _ -> true | x :: a', y :: b' -> x = y && prefix a' b' | _ -> false in
          if not (prefix (opens effs) (opens impl_effs)) then add "model:opens";
          if !ro || impl_opened = "ok" then
            if removes effs <> removes impl_effs then add "model:removes"
        end;
        (* specification *)
        let flag name = match Sexp.field name items with Some [b] -> bool_of_sx b | _ -> true in
        let mut = match Sexp.field "mutating" items with Some [n] -> int_of_sx n | _ -> 0 in
        if !ro then begin
          if not (flag "dirsame") then add "spec:readonly-dir-changed";
          if mut > 0 then add "spec:readonly-mutating-op"
        end;
        if impl_opened = "ok" && not (flag "content") then add "spec:open-content";
        (* a directory that holds a complete older data file must open *)
        if impl_opened = "failed" && List.exists (fun (_, st) -> match st with FValid _ -> true | _ -> false) d then
          add "spec:open-failed-with-valid-file";
        let nontriv = if List.length d >= 2 then 1 else 0 in
        if !kinds = [] then Printf.printf "CASE %d seed=%s AGREE steps=1 nontrivial=%d\n" !cur_id !cur_seed nontriv
        else begin
          Printf.printf "MISMATCH case=%d seed=%s step=0 label=open kinds=%s\n" !cur_id !cur_seed (String.concat "," (List.rev !kinds));
          Printf.printf "  %s\n" (String.sub line 0 (min 600 (String.length line)));
          Printf.printf "CASE %d seed=%s DISAGREE steps=1 nontrivial=%d\n" !cur_id !cur_seed nontriv
        end
    | _ -> () in
  List.iter (fun f ->
      let ic = open_in f in
      (try while true do
           let line = input_line ic in
           if String.length line > 0 then
             (try handle line with Failure m -> Printf.printf "DRIVER-ERROR case=%d seed=%s %s\n" !cur_id !cur_seed m)
         done with End_of_file -> ());
      close_in ic) files
