(* Handle lifetime (C15): reference-count events through the extracted
   monitor; handles re-read after every step; nothing open, mapped or stale
   at the end. *)
open Model
open Conv

let rec z_of_int (i : int) : z = if i = 0 then Z0 else if i > 0 then Zpos (pos_of_int i) else Zneg (pos_of_int (-i))

let () =
  let files = List.tl (Array.to_list Sys.argv) in
  let cur_id = ref 0 and cur_seed = ref "" in
  let handle line =
    let sx = Sexp.parse line in
    match Sexp.head sx with
    | "case" ->
        (match Sexp.args sx with
         | id :: Sexp.A seed :: _ -> cur_id := int_of_sx id; cur_seed := seed
         | _ -> failwith "case")
    | "refs" ->
        let items = Sexp.args sx in
        let geti name = match Sexp.field name items with Some (n :: _) -> int_of_sx n | _ -> 0 in
        let evs = List.map (function
            | Sexp.L [o; a] -> { r_obj = nat_of_int (int_of_sx o); r_after = z_of_int (int_of_sx a) }
            | _ -> failwith "ev") (Sexp.field_exn "events" items) in
        let kinds = List.filter_map (function Sexp.L [i; Sexp.A k] -> Some (int_of_sx i, k) | _ -> None) (Sexp.field_exn "kinds" items) in
        let kind_of o = try List.assoc (int_of_nat o) kinds with Not_found -> "?" in
        let ks = ref [] in
        let detail = ref [] in
        (match refs_check true evs with
         | ROK -> ()
         | RJump o -> ks := "spec:ref-count-jump" :: !ks; detail := ("jump on " ^ kind_of o) :: !detail
         | RUseAfterRelease o -> ks := "spec:ref-use-after-release" :: !ks; detail := ("use after release of " ^ kind_of o) :: !detail
         | RLeak o -> ks := "spec:ref-leak" :: !ks; detail := ("never released: " ^ kind_of o) :: !detail);
        if geti "problems" > 0 then ks := "spec:handle-changed" :: !ks;
        if geti "fds" > 0 then ks := "spec:leaked-fd" :: !ks;
        if geti "maps" > 0 then ks := "spec:leaked-mapping" :: !ks;
        (* known finding F31: once a round has left the store with a footer tree without any segment
           (every collection holding data was dropped) the data file has no owner and is never unlinked *)
        if geti "files" > 1 then
          ks := (if geti "emptyfooters" > 0 then "spec:stale-files-after-file-switch" else "spec:stale-files") :: !ks;
        let nlabels = List.length (Sexp.field_exn "labels" items) in
        let nt = if List.length evs > 20 then 1 else 0 in
        if !ks = [] then Printf.printf "CASE %d seed=%s AGREE steps=%d nontrivial=%d\n" !cur_id !cur_seed nlabels nt
        else begin
          Printf.printf "MISMATCH case=%d seed=%s step=0 label=refs kinds=%s\n" !cur_id !cur_seed (String.concat "," (List.rev !ks));
          Printf.printf "  %s | %s\n" (String.concat "; " !detail) (String.sub line 0 (min 700 (String.length line)));
          Printf.printf "CASE %d seed=%s DISAGREE steps=%d nontrivial=%d\n" !cur_id !cur_seed nlabels nt
        end
    | _ -> () in
  List.iter (fun f ->
      let ic = open_in f in
      (try while true do
           let line = input_line ic in
           if String.length line > 0 then
             (try handle line with Failure m -> Printf.printf "DRIVER-ERROR case=%d seed=%s %s\n" !cur_id !cur_seed m)
         done with End_of_file -> ());
      close_in ic) files
