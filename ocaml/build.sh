#!/bin/sh
# Builds the extracted model and the trace drivers. Run in /verif/ocaml.
set -e
cd "$(dirname "$0")"
coqc -Q ../coq Moss Extract.v >/dev/null
mkdir -p ../.build
for drv in flatrun treerun indexrun rorun crashrun codecrun histrun faultrun iterrun syncrun concrun refsrun; do
  ocamlfind ocamlopt -w -a -package str model.mli model.ml sexp.ml conv.ml $drv.ml -o ../.build/$drv
done
