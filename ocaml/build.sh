#!/bin/sh
# Builds the extracted model and the trace drivers. Run in /verif/ocaml.
set -e
cd "$(dirname "$0")"
coqc -Q ../coq Moss Extract.v >/dev/null
mkdir -p ../.build
for drv in flatrun treerun indexrun rorun codecrun histrun histtreerun faultrun iterrun concrun refsrun ownersrun; do
  ocamlfind ocamlopt -w -a -package str model.mli model.ml sexp.ml conv.ml $drv.ml -o ../.build/$drv
done
# the persistence-round model (StoreOps.v) is extracted into opsmodel.ml by Extract.v
ocamlfind ocamlopt -w -a -package str opsmodel.mli opsmodel.ml sexp.ml opsrun.ml -o ../.build/opsrun
# syncrun also steps the fine-grained wait/notify model (Sync2.v, Sync2Run.v), extracted into sync2model.ml
ocamlfind ocamlopt -w -a -package str model.mli model.ml sync2model.mli sync2model.ml sexp.ml conv.ml syncrun.ml -o ../.build/syncrun
# crashrun also evaluates the directory-level crash discipline (CrashFiles.v), extracted into crashfiles.ml
ocamlfind ocamlopt -w -a -package str model.mli model.ml crashfiles.mli crashfiles.ml sexp.ml conv.ml crashrun.ml -o ../.build/crashrun
# batchbufrun steps the batch-buffer model (BatchBuf.v), extracted into bbmodel.ml
ocamlfind ocamlopt -w -a -package str bbmodel.mli bbmodel.ml sexp.ml batchbufrun.ml -o ../.build/batchbufrun
