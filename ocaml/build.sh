#!/bin/sh
# Builds the extracted model and the trace drivers. Run in /verif/ocaml.
set -e
cd "$(dirname "$0")"
coqc -Q ../coq Moss Extract.v >/dev/null
ocamlfind ocamlopt -O2 -w -a -package str model.mli model.ml sexp.ml conv.ml flatrun.ml -o ../.build/flatrun 2>/dev/null || \
ocamlfind ocamlopt -w -a -package str model.mli model.ml sexp.ml conv.ml flatrun.ml -o ../.build/flatrun
