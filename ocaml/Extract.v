(* Extract.v — extraction of the executable model to OCaml.  ExtrOcamlBasic
   only; N, positive and nat stay as extracted inductive types.  Compiled in
   this directory so that model.ml lands here. *)
Require Extraction.
Require Import ExtrOcamlBasic.
From Moss Require Import FlatRun.
Extraction Language OCaml.
Extraction "model.ml" fstep fcheck finit calc_partial_start calc_target_top_level.
