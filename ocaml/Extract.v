(* Extract.v — extraction of the executable model to OCaml.  ExtrOcamlBasic
   only; N, positive and nat stay as extracted inductive types.  Compiled in
   this directory so that model.ml lands here. *)
Require Extraction.
Require Import ExtrOcamlBasic.
From Moss Require Import FlatRun TreeRun Index OpenDir Codec FileFormat Previous PrevTree Faults Sync Iterator History Refs Crash IteratorIncl TreeInv.
From Moss Require Owners OwnersScenarios OwnersRevert OwnersRevertScenarios OwnersProgress.
Extraction Language OCaml.
Extraction "model.ml" fstep fcheck finit calc_partial_start calc_target_top_level
  trstep trinit model_canon canonical store_canon reads_of ref_reads rnode_eqb t_coll_get
  t_dirty_segments t_dirty_ops full_shape_ok fnode_full_shape_ok barrier_ok run_spec_incl_naive cstep cinit tref_now rt_get t_cur_snapshot tobs_id fm0 zero_gauges_ok zero_gauges_existence_only probe_all open_store persist_effects
  scan_footer_bytes scan_footer_repaired_bytes scan_footer_json_bytes roundtrip_check Codec.encode Codec.decode
  pageAlignCeil pageAlignFloor pageOffset load_segment persist_segment persist_segment_loc mutate_guard
  h_append h_compact_partial h_compact_full h_revert h_previous h_walk llv sget sort_seg run_round
  th_round th_previous th_walk th_revert tcurrent tcur_bs ref_tree fn_any_segs
  run_iter run_iter_pre_fix run_spec live_range iter_list sy_step sy_init sy_run check_hist snap_atomic snap_realtime refs_check
  Owners.run_events OwnersScenarios.run_nfiles OwnersScenarios.sc_append_rounds_snapshots OwnersScenarios.sc_heap_iter_snapshot_closed_first
  OwnersScenarios.sc_force_compaction_child OwnersScenarios.sc_partial_compaction_cached
  OwnersScenarios.sc_drop_recreate_persister_held OwnersScenarios.sc_history_get_idle_cycle
  OwnersScenarios.sc_iter_kinds_fully_persisted OwnersScenarios.sc_store_snapshot_iterators
  OwnersScenarios.sc_handles_between_gates OwnersScenarios.sc_child_only_full_compaction
  OwnersScenarios.sc_drop_only_child_new_file OwnersScenarios.sc_iterator_error_return
  OwnersScenarios.sc_close_collection_before_handles
  OwnersRevert.xrun_events OwnersRevert.xrun_nfiles OwnersRevertScenarios.sc_revert_previous_held
  OwnersRevertScenarios.sc_revert_child_previous_held OwnersRevertScenarios.sc_revert_previous_closed_first
  OwnersRevertScenarios.sc_revert_child_only
  OwnersProgress.first_illegal OwnersProgress.xfirst_illegal.

(* The persistence-round control-flow model (StoreOps.v) is extracted into a file of
   its own: its names (run, init, step, file, RFull ...) would clash with the flat model. *)
From Moss Require StoreOps.
Extraction "opsmodel.ml" StoreOps.predict StoreOps.step_ix.

(* The fine-grained wait/notify model (Sync2.v) and its lock-step driver (Sync2Run.v), for
   syncrun: a file of its own for the same reason (step, run, init, state ...). *)
From Moss Require Sync2 Sync2Run.
Extraction "sync2model.ml" Sync2Run.apply_label Sync2Run.start Sync2Run.cfg_sync Sync2Run.quiescent
  Sync2Run.obs_top Sync2Run.obs_blocked Sync2Run.obs_ok Sync2Run.obs_closedret Sync2Run.obs_syncdone
  Sync2Run.obs_syncret Sync2Run.obs_closed Sync2Run.obs_mgate Sync2Run.obs_asleep.

(* The directory-level crash discipline (CrashFiles.v), for crashrun: a file of its own
   (files, hi, reopen ... would clash with other models' names). *)
From Moss Require CrashFiles.
Extraction "crashfiles.ml" CrashFiles.files_ok.

(* The in-memory batch buffer (BatchBuf.v), for batchbufrun: a file of its own (step, run, read ...). *)
From Moss Require BatchBuf.
Extraction "bbmodel.ml" BatchBuf.step BatchBuf.new_batch BatchBuf.entries BatchBuf.sort_batch
  BatchBuf.batch_find_start BatchBuf.batch_get BatchBuf.h_sub BatchBuf.h_len BatchBuf.h_cap BatchBuf.h_nil
  BatchBuf.res_code BatchBuf.alloc_mutate BatchBuf.mutate_ex BatchBuf.read BatchBuf.batch_len.
