(* Concurrent histories (C03): recorded free-running histories go through the
   extracted check_hist. *)
open Model
open Conv

let () =
  let files = List.tl (Array.to_list Sys.argv) in
  let cur_id = ref 0 and cur_seed = ref "" in
  let handle line =
    let sx = Sexp.parse line in
    match Sexp.head sx with
    | "case" ->
        (match Sexp.args sx with
         | id :: Sexp.A seed :: _ -> cur_id := int_of_sx id; cur_seed := seed
         | _ -> failwith "case")
    | "conc" ->
        let items = Sexp.args sx in
        let bs = List.map (function
            | Sexp.L [w; s; a; b] -> { b_writer = nat_of_int (int_of_sx w); b_seq = nat_of_int (int_of_sx s);
                                       b_start = nat_of_int (int_of_sx a); b_end = nat_of_int (int_of_sx b) }
            | _ -> failwith "batch") (Sexp.field_exn "batches" items) in
        let sn = List.map (function
            | Sexp.L [a; b; Sexp.L (Sexp.A "views" :: vs)] ->
                { s_start = nat_of_int (int_of_sx a); s_end = nat_of_int (int_of_sx b);
                  s_views = List.map (function
                      | Sexp.L [seen; Sexp.L us] ->
                          let sv = int_of_sx seen in
                          { w_seen = (if sv < 0 then None else Some (nat_of_int sv));
                            w_uniques = List.map (fun u -> nat_of_int (int_of_sx u)) us }
                      | _ -> failwith "view") vs }
            | _ -> failwith "snap") (Sexp.field_exn "snaps" items) in
        let hung = (match Sexp.field "hung" items with Some [Sexp.A "1"] -> true | _ -> false) in
        let behind = (match Sexp.field "behind" items with Some (n :: _) -> int_of_sx n | _ -> 0) in
        let expected = (match Sexp.field "expected" items with Some [n] -> int_of_sx n | _ -> 0) in
        let h = { h_batches = bs; h_snaps = sn } in
        let ok = check_hist h in
        let kinds = (if ok then [] else ["spec:history"]) @ (if hung then ["spec:call-did-not-return"] else [])
                    @ (if behind > 0 then ["spec:fresh-snapshot-behind-get"] else [])
                    @ (if (not hung) && List.length bs <> expected then ["spec:batch-failed"] else []) in
        (* the final snapshots (taken after every writer finished) must show every batch *)
        let nt = if List.length sn >= 2 && List.length bs >= 4 then 1 else 0 in
        if kinds = [] then Printf.printf "CASE %d seed=%s AGREE steps=%d nontrivial=%d\n" !cur_id !cur_seed (List.length sn) nt
        else begin
          Printf.printf "MISMATCH case=%d seed=%s step=0 label=conc kinds=%s\n" !cur_id !cur_seed (String.concat "," kinds);
          (* point at the first offending snapshot *)
          List.iteri (fun i s ->
              if not (snap_atomic s) then Printf.printf "  snapshot %d is not an atomic per-writer prefix\n" i
              else if not (snap_realtime bs s) then Printf.printf "  snapshot %d misses a batch that had returned before it started (or shows one not yet invoked)\n" i) sn;
          Printf.printf "  %s\n" (String.sub line 0 (min 600 (String.length line)));
          Printf.printf "CASE %d seed=%s DISAGREE steps=%d nontrivial=%d\n" !cur_id !cur_seed (List.length sn) nt
        end
    | _ -> () in
  List.iter (fun f ->
      let ic = open_in f in
      (try while true do
           let line = input_line ic in
           if String.length line > 0 then
             (try handle line with Failure m -> Printf.printf "DRIVER-ERROR case=%d seed=%s %s\n" !cur_id !cur_seed m)
         done with End_of_file -> ());
      close_in ic) files
