(* Store history correspondence (C12): persistence rounds, SnapshotPrevious
   walks, SnapshotRevert and reopen against the footer-chain model. *)
open Model
open Conv

let dump_segs (s : Sexp.t) : segment list =       (* newest first *)
  match flat_stack s with Some l -> List.rev l | None -> []

let () =
  let files = List.tl (Array.to_list Sys.argv) in
  let cur_id = ref 0 and cur_seed = ref "" in
  let hf : hfooter list ref = ref [] in        (* the model's file *)
  let pos : int list ref = ref [] in           (* file offset of each footer, same order *)
  let univ : bytes list ref = ref [] in
  let steps = ref 0 and mism = ref 0 and nontriv = ref 0 and active = ref false in
  let bad kinds detail =
    incr mism;
    Printf.printf "MISMATCH case=%d seed=%s step=%d label=history kinds=%s\n" !cur_id !cur_seed !steps (String.concat "," kinds);
    Printf.printf "  %s\n" detail in
  let finish () =
    if !active then
      Printf.printf "CASE %d seed=%s %s steps=%d nontrivial=%d\n" !cur_id !cur_seed
        (if !mism = 0 then "AGREE" else "DISAGREE") !steps !nontriv;
    active := false in
  let cur_segs () = match List.rev !hf with f :: _ -> f.h_segs | [] -> [] in
  let idx_of_pos p = let rec go i = function [] -> None | x :: r -> if x = p then Some i else go (i + 1) r in go 0 !pos in
  let handle line =
    let sx = Sexp.parse line in
    match Sexp.head sx with
    | "case" ->
        finish ();
        (match Sexp.args sx with
         | id :: Sexp.A seed :: _ :: Sexp.L [Sexp.A "universe"; Sexp.L u] :: _ ->
             cur_id := int_of_sx id; cur_seed := seed; hf := []; pos := []; steps := 0; mism := 0; nontriv := 0; active := true;
             univ := List.map (function Sexp.A a -> bytes_of_atom a | _ -> failwith "univ") u
         | _ -> failwith "case")
    | "round" ->
        incr steps;
        (match Sexp.args sx with
         | [tb; kind; p; dump] ->
             let ops = (match tb with
                 | Sexp.L [Sexp.A "tb"; Sexp.L (Sexp.A "ops" :: ops); _] -> List.map op_entry ops
                 | _ -> failwith "tb") in
             let higher = [sort_seg ops] in
             let segs = dump_segs dump in
             let old = cur_segs () in
             let newf, expect =
               (match kind with
                | Sexp.L [Sexp.A "append"] -> let f' = h_append !hf higher in (f', Some f')
                | Sexp.L [Sexp.A "compact"; Sexp.A "0"] -> let f' = h_compact_full fm0 !hf higher in (f', Some f')
                | Sexp.L [Sexp.A "compact"; n] -> let f' = h_compact_partial fm0 !hf (nat_of_int (int_of_sx n)) higher in (f', Some f')
                | _ -> (!hf, None)) in
             (match expect with
              | Some f' ->
                  let last = List.nth f' (List.length f' - 1) in
                  if last.h_segs <> segs then bad ["model:footer-segments"] (String.sub line 0 (min 500 (String.length line)));
                  (match kind with
                   | Sexp.L [Sexp.A "compact"; Sexp.A "0"] -> pos := [int_of_sx p]
                   | _ -> pos := !pos @ [int_of_sx p]);
                  hf := f'
              | None -> bad ["model:persist-kind"] (Sexp.to_string kind));
             (* specification: content advanced by exactly this batch *)
             let keys = List.sort_uniq compare (!univ @ List.map fst ops) in
             if List.exists (fun k -> llv fm0 segs k <> sget fm0 higher (llv fm0 old) k) keys then
               bad ["spec:round-content"] (String.sub line 0 (min 500 (String.length line)));
             ignore newf
         | _ -> failwith "round")
    | "walk" ->
        incr steps;
        let items = Sexp.args sx in
        let got = List.filter_map (function Sexp.L [Sexp.A "err"; _] -> None | Sexp.L [p; d] -> Some (int_of_sx p, dump_segs d) | _ -> None) items in
        let haderr = List.exists (function Sexp.L [Sexp.A "err"; _] -> true | _ -> false) items in
        let n = List.length !hf in
        if n > 0 then begin
          let want = h_walk (nat_of_int (n + 1)) !hf (nat_of_int (n - 1)) in
          let wantl = List.map (fun i -> let i = int_of_nat i in (List.nth !pos i, (List.nth !hf i).h_segs)) want in
          if List.length wantl >= 1 then incr nontriv;
          if haderr then bad ["spec:previous-error"] (String.sub line 0 (min 300 (String.length line)))
          else if List.map fst wantl <> List.map fst got then
            bad ["model:walk-chain"; "spec:walk-chain"] (Printf.sprintf "want=%s got=%s" (String.concat "," (List.map (fun (p, _) -> string_of_int p) wantl))
                                                           (String.concat "," (List.map (fun (p, _) -> string_of_int p) got)))
          else if wantl <> got then bad ["spec:previous-content-changed"] (String.sub line 0 (min 300 (String.length line)))
        end else if got <> [] then bad ["model:walk-chain"] "walk on empty history"
    | "revert" ->
        incr steps;
        (match Sexp.args sx with
         | [tp; res; np; dump] ->
             let segs = dump_segs dump in
             (match idx_of_pos (int_of_sx tp), res with
              | Some t, Sexp.A "ok" ->
                  (match h_revert !hf (nat_of_int t) with
                   | Some f' ->
                       let target = List.nth !hf t in
                       if segs <> target.h_segs then bad ["model:revert-content"; "spec:revert-content"] (String.sub line 0 (min 400 (String.length line)));
                       hf := f'; pos := !pos @ [int_of_sx np]; incr nontriv
                   | None -> bad ["model:revert"] "model refuses")
              | Some _, _ ->
                  (* a target inside the current file must be revertible *)
                  bad ["spec:revert-refused"] (Sexp.to_string res)
              | None, Sexp.A "ok" -> bad ["model:revert"] "reverted to a footer the model does not know"
              | None, _ -> ())
         | _ -> failwith "revert")
    | "reopen" ->
        incr steps;
        (match Sexp.args sx with
         | [p; dump] ->
             let segs = dump_segs dump in
             if !hf = [] then begin
               if segs <> [] then bad ["model:reopen"] "non-empty store where the model has none"
             end else begin
               if segs <> cur_segs () then bad ["model:reopen"; "spec:reopen-content"] (String.sub line 0 (min 400 (String.length line)));
               if int_of_sx p <> List.nth !pos (List.length !pos - 1) then bad ["model:reopen-footer"] (Sexp.to_string p)
             end
         | _ -> failwith "reopen")
    | "error" -> bad ["harness-error"] line
    | "end" -> finish ()
    | _ -> () in
  List.iter (fun f ->
      let ic = open_in f in
      (try while true do
           let line = input_line ic in
           if String.length line > 0 then
             (try handle line with Failure m -> Printf.printf "DRIVER-ERROR case=%d seed=%s %s\n" !cur_id !cur_seed m; incr mism)
         done with End_of_file -> ());
      close_in ic; finish ()) files
