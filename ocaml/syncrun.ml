(* Wait/notify correspondence (C16): the counts observed after every label
   against the Sync model. *)
open Model
open Conv

let () =
  let files = List.tl (Array.to_list Sys.argv) in
  let cur_id = ref 0 and cur_seed = ref "" in
  let st : sy option ref = ref None in
  let steps = ref 0 and mism = ref 0 and nontriv = ref 0 and active = ref false in
  let finish () =
    if !active then Printf.printf "CASE %d seed=%s %s steps=%d nontrivial=%d\n" !cur_id !cur_seed
        (if !mism = 0 then "AGREE" else "DISAGREE") !steps !nontriv;
    active := false in
  let bad kinds detail =
    incr mism;
    Printf.printf "MISMATCH case=%d seed=%s step=%d label=sync kinds=%s\n  %s\n" !cur_id !cur_seed !steps (String.concat "," kinds) detail in
  let handle line =
    let sx = Sexp.parse line in
    match Sexp.head sx with
    | "case" ->
        finish ();
        (match Sexp.args sx with
         | id :: Sexp.A seed :: cfg :: _ ->
             cur_id := int_of_sx id; cur_seed := seed; steps := 0; mism := 0; nontriv := 0; active := true;
             let cap = (match Sexp.field_exn "maxpre" (Sexp.args cfg) with [n] -> int_of_sx n | _ -> 1) in
             st := Some (sy_init (nat_of_int cap))
         | _ -> failwith "case")
    | "sync" ->
        incr steps;
        (match Sexp.args sx with
         | Sexp.A label :: items ->
             let geti name = match Sexp.field name items with Some (n :: _) -> int_of_sx n | _ -> 0 in
             let lbls = (match label with
                 | "arrive" -> [SArrive] | "ingest" -> [SIngest] | "cycleend" -> [SCycleEnd]
                 | "notifysync" -> [SNotifySync] | "close" -> [SClose] | _ -> failwith ("label " ^ label)) in
             (match !st with
              | None -> ()
              | Some s ->
                  let s' = List.fold_left sy_step s lbls in
                  st := Some s';
                  let kinds = ref [] in
                  let chk name m i = if int_of_nat m <> i then kinds := (Printf.sprintf "model:%s(model=%d,impl=%d)" name (int_of_nat m) i) :: !kinds in
                  chk "top" (if s'.y_closed then O else s'.y_top) (geti "top");
                  chk "blocked" s'.y_wait (geti "blocked");
                  chk "ok" s'.y_ok (geti "ok");
                  chk "closedret" s'.y_closed_ret (geti "closedret");
                  chk "syncret" s'.y_syncret (geti "syncret");
                  if int_of_nat s'.y_wait > 0 then incr nontriv;
                  let settle = (match Sexp.field "settle" items with Some [Sexp.A "ok"] -> true | _ -> false) in
                  let speck = ref [] in
                  if geti "top" > int_of_nat s'.y_cap then speck := "spec:top-exceeds-cap" :: !speck;
                  if geti "othererr" > 0 then speck := "spec:unexpected-error" :: !speck;
                  if not settle then speck := "spec:call-did-not-return" :: !speck;
                  if label = "close" && geti "blocked" > 0 then speck := "spec:close-left-writers-blocked" :: !speck;
                  if !kinds <> [] || !speck <> [] then
                    bad ((List.map (fun k -> List.hd (String.split_on_char '(' k)) (List.rev !kinds)) @ !speck)
                      (String.concat " " (List.rev !kinds) ^ " " ^ String.sub line 0 (min 300 (String.length line))))
         | _ -> failwith "sync")
    | "stall" ->
        incr steps; incr nontriv;
        (match Sexp.args sx with
         | [Sexp.A "ok"] -> ()
         | _ -> bad ["spec:api-call-hung"] line)
    | "stuck" ->
        incr steps; incr nontriv;
        bad ["spec:gauges-stuck-nonzero"] line
    | "afterclose" ->
        if List.exists (fun a -> a <> Sexp.A "closed") (Sexp.args sx) then bad ["spec:after-close-not-errclosed"] line
    | "error" -> bad ["spec:call-did-not-return"; "harness-error"] line
    | "end" -> finish ()
    | _ -> () in
  List.iter (fun f ->
      let ic = open_in f in
      (try while true do
           let line = input_line ic in
           if String.length line > 0 then
             (try handle line with Failure m -> Printf.printf "DRIVER-ERROR case=%d seed=%s %s\n" !cur_id !cur_seed m; incr mism)
         done with End_of_file -> ());
      close_in ic; finish ()) files
