(* Wait/notify correspondence (C16): the counts observed after every label
   against the Sync model (coarse: one step per label) and, in lock step with it, against
   the fine-grained Sync2 model driven by Sync2Run.apply_label (the label's step from
   outside or through a gate, then every free step until nothing free is enabled). *)
open Model
open Conv

(* sync2model.ml has its own copy of nat *)
module M2 = Sync2model
let rec n2_of_int (i : int) : M2.nat = if i <= 0 then M2.O else M2.S (n2_of_int (i - 1))
let rec int_of_n2 (n : M2.nat) : int = match n with M2.O -> 0 | M2.S m -> 1 + int_of_n2 m

let () =
  let files = List.tl (Array.to_list Sys.argv) in
  let cur_id = ref 0 and cur_seed = ref "" in
  let st : sy option ref = ref None in
  let cfg2 : M2.config option ref = ref None in
  let st2 : M2.state option ref = ref None in
  let steps = ref 0 and mism = ref 0 and nontriv = ref 0 and active = ref false in
  let finish () =
    if !active then Printf.printf "CASE %d seed=%s %s steps=%d nontrivial=%d\n" !cur_id !cur_seed
        (if !mism = 0 then "AGREE" else "DISAGREE") !steps !nontriv;
    active := false in
  let bad kinds detail =
    incr mism;
    Printf.printf "MISMATCH case=%d seed=%s step=%d label=sync kinds=%s\n  %s\n" !cur_id !cur_seed !steps (String.concat "," kinds) detail in
  let handle line =
    let sx = Sexp.parse line in
    match Sexp.head sx with
    | "case" ->
        finish ();
        (match Sexp.args sx with
         | id :: Sexp.A seed :: cfg :: _ ->
             cur_id := int_of_sx id; cur_seed := seed; steps := 0; mism := 0; nontriv := 0; active := true;
             let cap = (match Sexp.field_exn "maxpre" (Sexp.args cfg) with [n] -> int_of_sx n | _ -> 1) in
             st := Some (sy_init (nat_of_int cap));
             (* ordinary cases only: no lower level (the scenario cases emit no sync lines) *)
             let c2 = M2.cfg_sync (n2_of_int cap) in
             cfg2 := Some c2; st2 := Some (M2.start c2)
         | _ -> failwith "case")
    | "sync" ->
        incr steps;
        (match Sexp.args sx with
         | Sexp.A label :: items ->
             let geti name = match Sexp.field name items with Some (n :: _) -> int_of_sx n | _ -> 0 in
             let lbls = (match label with
                 | "arrive" -> [SArrive] | "ingest" -> [SIngest] | "cycleend" -> [SCycleEnd]
                 | "notifysync" -> [SNotifySync] | "close" -> [SClose] | _ -> failwith ("label " ^ label)) in
             (match !st with
              | None -> ()
              | Some s ->
                  let s' = List.fold_left sy_step s lbls in
                  st := Some s';
                  let kinds = ref [] in
                  let chk name m i = if int_of_nat m <> i then kinds := (Printf.sprintf "model:%s(model=%d,impl=%d)" name (int_of_nat m) i) :: !kinds in
                  chk "top" (if s'.y_closed then O else s'.y_top) (geti "top");
                  chk "blocked" s'.y_wait (geti "blocked");
                  chk "ok" s'.y_ok (geti "ok");
                  chk "closedret" s'.y_closed_ret (geti "closedret");
                  chk "syncret" s'.y_syncret (geti "syncret");
                  if int_of_nat s'.y_wait > 0 then incr nontriv;
                  (* ---- the fine-grained model ---- *)
                  (match !cfg2, !st2 with
                   | Some c2, Some z ->
                       let hl = (match label with
                           | "arrive" -> M2.HArrive | "ingest" -> M2.HIngest | "cycleend" -> M2.HCycleEnd
                           | "notifysync" -> M2.HNotifySync | _ -> M2.HClose) in
                       (match M2.apply_label c2 z hl with
                        | None ->
                            (* the call from outside / the gated step of this label is not enabled in the
                               model: it is not where the implementation is; stop stepping it for this case *)
                            st2 := None;
                            kinds := (Printf.sprintf "model2:not-enabled(mgate=%d,asleep=%b)"
                                        (int_of_n2 (M2.obs_mgate z)) (M2.obs_asleep z)) :: !kinds
                        | Some z' ->
                            st2 := Some z';
                            let chk2 name m i = if int_of_n2 m <> i then kinds := (Printf.sprintf "model2:%s(model=%d,impl=%d)" name (int_of_n2 m) i) :: !kinds in
                            if not (M2.quiescent c2 z') then kinds := "model2:fuel(settle ran out of fuel)" :: !kinds;
                            (* after Close the harness reports top 0 and blocked 0; the model's Close has run to its
                               end by then (LCFinal empties the sections, every woken writer has returned) *)
                            chk2 "top" (M2.obs_top z') (geti "top");
                            chk2 "blocked" (M2.obs_blocked z') (geti "blocked");
                            chk2 "ok" (M2.obs_ok z') (geti "ok");
                            chk2 "closedret" (M2.obs_closedret z') (geti "closedret");
                            (* famsync.go counts a synchronous NotifyMerger as returned whatever it returned (nil, or
                               ErrClosed when it races with Close): answered + failed; while the collection is open
                               the failed ones are 0 in the model, so this is exact there *)
                            chk2 "syncret" (M2.obs_syncdone z') (geti "syncret"))
                   | _, _ -> ());
                  let settle = (match Sexp.field "settle" items with Some [Sexp.A "ok"] -> true | _ -> false) in
                  let speck = ref [] in
                  if geti "top" > int_of_nat s'.y_cap then speck := "spec:top-exceeds-cap" :: !speck;
                  if geti "othererr" > 0 then speck := "spec:unexpected-error" :: !speck;
                  if not settle then speck := "spec:call-did-not-return" :: !speck;
                  if label = "close" && geti "blocked" > 0 then speck := "spec:close-left-writers-blocked" :: !speck;
                  if !kinds <> [] || !speck <> [] then
                    bad ((List.map (fun k -> List.hd (String.split_on_char '(' k)) (List.rev !kinds)) @ !speck)
                      (String.concat " " (List.rev !kinds) ^ " " ^ String.sub line 0 (min 300 (String.length line))))
         | _ -> failwith "sync")
    | "stall" ->
        incr steps; incr nontriv;
        (match Sexp.args sx with
         | [Sexp.A "ok"] -> ()
         | _ -> bad ["spec:api-call-hung"] line)
    | "stuck" ->
        incr steps; incr nontriv;
        bad ["spec:gauges-stuck-nonzero"] line
    | "afterclose" ->
        if List.exists (fun a -> a <> Sexp.A "closed") (Sexp.args sx) then bad ["spec:after-close-not-errclosed"] line
    | "error" -> bad ["spec:call-did-not-return"; "harness-error"] line
    | "end" -> finish ()
    | _ -> () in
  List.iter (fun f ->
      let ic = open_in f in
      (try while true do
           let line = input_line ic in
           if String.length line > 0 then
             (try handle line with Failure m -> Printf.printf "DRIVER-ERROR case=%d seed=%s %s\n" !cur_id !cur_seed m; incr mism)
         done with End_of_file -> ());
      close_in ic; finish ()) files
