(* Crash-image correspondence (C05): the same bytes the implementation reopened
   are scanned by the model's ScanFooter; the chosen file and footer position
   must agree, and the reopened content must be a prefix at least as long as
   the last synced round. *)
open Model
open Conv

let read_file (path : string) : bytes =
  let ic = open_in_bin path in
  let n = in_channel_length ic in
  let s = really_input_string ic n in
  close_in ic;
  List.init n (fun i -> n_of_int (Char.code s.[i]))

let header_ok (b : bytes) : bool =
  let magic = "moss-data-store:\n" in
  List.length b >= 4096 &&
  (let rec chk i l = if i >= String.length magic then true
     else match l with x :: r -> int_of_n x = Char.code magic.[i] && chk (i + 1) r | [] -> false in
   chk 0 b)

let () =
  let files = List.tl (Array.to_list Sys.argv) in
  let cur_id = ref 0 and cur_seed = ref "" in
  let handle line =
    let sx = Sexp.parse line in
    match Sexp.head sx with
    | "case" ->
        (match Sexp.args sx with
         | id :: Sexp.A seed :: _ -> cur_id := int_of_sx id; cur_seed := seed
         | _ -> failwith "case")
    | "crash" ->
        let items = Sexp.args sx in
        let fl = List.filter_map (function
            | Sexp.L [s; Sexp.A path; _] -> Some (int_of_sx s, path)
            | _ -> None) (Sexp.field_exn "files" items) in
        let fl = List.sort (fun (a, _) (b, _) -> compare b a) (List.filter (fun (s, _) -> s >= 0) fl) in
        let rec choose = function
          | [] -> None
          | (seq, path) :: rest ->
              let b = read_file path in
              if not (header_ok b) then choose rest else
              (match scan_footer_json_bytes (n_of_int 4096) b with
               | (N0, pos) -> Some (seq, int_of_n pos)
               | _ -> choose rest) in
        let model = choose fl in
        let opened = (match Sexp.field_exn "opened" items with [Sexp.A s] -> s | _ -> "?") in
        let geti name = match Sexp.field_exn name items with [n] -> int_of_sx n | _ -> -1 in
        let prefix = geti "prefix" and nsynced = geti "nsynced" in
        let (fseq, fpos) = match Sexp.field_exn "footer" items with [a; b] -> (int_of_sx a, int_of_sx b) | _ -> (-1, -1) in
        let kinds = ref [] in
        let add k = kinds := k :: !kinds in
        (match model, opened with
         | Some (s, p), "ok" -> if s <> fseq || p <> fpos then add "model:footer-choice"
         | None, "ok" when fl = [] -> ()          (* no data file at all: an empty store *)
         | None, "failed" -> ()
         | Some _, _ -> add "model:open-result"
         | None, _ -> add "model:open-result");
        (* the discipline the write-ordering theorem assumes: every footer write is issued only
           after everything written before it has been synced (checked by the extracted barrier_ok) *)
        let nosync = (match Sexp.field "nosync" items with Some [b] -> bool_of_sx b | _ -> true) in
        (match Sexp.field "optrace" items with
         | Some fs when not nosync && not (match Sexp.field "mixed" items with Some [b] -> bool_of_sx b | _ -> false) ->
             (* (a mixed workload's NoSync phase writes footers without the barrier, as it may) *)
             List.iter (function
                 | Sexp.L (Sexp.A "file" :: _ :: ops) ->
                     let tr = List.map (function
                         | Sexp.A "s" -> CSync | Sexp.A "f" -> CWrite true | _ -> CWrite false) ops in
                     if not (barrier_ok tr) then add "model:write-barrier"
                 | _ -> ()) fs
         | _ -> ());
        (* the directory-level discipline the several-files theorem assumes (CrashFiles.files_ok, extracted):
           new files get the highest number, no footer below a newer file that holds one, the file holding
           the newest durable footer is never unlinked *)
        let getb name = (match Sexp.field name items with Some [b] -> bool_of_sx b | _ -> false) in
        let optout = getb "syncoptout" in
        (* a crash in the NoSync phase of a mixed workload that wrote back SOME of the un-synced pages:
           a NoSync round's footer is not protected by a barrier (known finding F45) *)
        let partialwb = getb "partialwb" in
        let sfx k = if partialwb then k ^ "-nosync-partial-writeback" else if optout then k ^ "-sync-opted-out" else k in
        (match Sexp.field "gtrace" items with
         | Some evs ->
             let rec cfn n = if n <= 0 then Crashfiles.O else Crashfiles.S (cfn (n - 1)) in
             let tr = List.filter_map (function
                 | Sexp.L [Sexp.A k; n] ->
                     let f = cfn (int_of_sx n) in
                     (match k with
                      | "c" -> Some (Crashfiles.FCreate f) | "f" -> Some (Crashfiles.FFooter f)
                      | "s" -> Some (Crashfiles.FSync f) | "u" -> Some (Crashfiles.FUnlink f) | _ -> None)
                 | _ -> None) evs in
             if not (Crashfiles.files_ok tr) then add (if optout then "model:files-discipline-sync-opted-out" else "model:files-discipline")
         | None -> ());
        if opened = "panic" then add (if partialwb then "spec:open-panic-nosync-partial-writeback" else "spec:open-panic")
        else if opened <> "ok" then begin
          if model = None && nsynced = 0 then add "spec:first-round-unopenable"
          else if nsynced > 0 && getb "mixed" then add (sfx "spec:lost-synced-round")
          else add (if partialwb then "spec:open-failed-nosync-partial-writeback" else "spec:open-failed")
        end else begin
          if prefix < 0 then add (if partialwb then "spec:not-a-prefix-nosync-partial-writeback" else "spec:not-a-prefix")
          else if prefix < nsynced then add (sfx "spec:lost-synced-round")
        end;
        let nontriv = if nsynced > 0 then 1 else 0 in
        if !kinds = [] then Printf.printf "CASE %d seed=%s AGREE steps=1 nontrivial=%d\n" !cur_id !cur_seed nontriv
        else begin
          Printf.printf "MISMATCH case=%d seed=%s step=0 label=crash kinds=%s\n" !cur_id !cur_seed (String.concat "," (List.rev !kinds));
          Printf.printf "  model=%s impl=(%d,%d) %s\n" (match model with Some (s, p) -> Printf.sprintf "(%d,%d)" s p | None -> "none") fseq fpos
            (String.sub line 0 (min 700 (String.length line)));
          Printf.printf "CASE %d seed=%s DISAGREE steps=1 nontrivial=%d\n" !cur_id !cur_seed nontriv
        end
    | _ -> () in
  List.iter (fun f ->
      let ic = open_in f in
      (try while true do
           let line = input_line ic in
           if String.length line > 0 then
             (try handle line with Failure m -> Printf.printf "DRIVER-ERROR case=%d seed=%s %s\n" !cur_id !cur_seed m
                                 | Sys_error m -> Printf.printf "DRIVER-ERROR case=%d seed=%s %s\n" !cur_id !cur_seed m)
         done with End_of_file -> ());
      close_in ic) files
