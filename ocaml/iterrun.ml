(* Iterator correspondence (C09): the same snapshot shape, bounds and program
   of Next / SeekTo / Current calls evaluated by the extracted iterator model
   (repaired optimize) and compared call by call; also against the spec. *)
open Model
open Conv

let () =
  let files = List.tl (Array.to_list Sys.argv) in
  let cur_id = ref 0 and cur_seed = ref "" in
  let handle line =
    let sx = Sexp.parse line in
    match Sexp.head sx with
    | "case" ->
        (match Sexp.args sx with
         | id :: Sexp.A seed :: _ -> cur_id := int_of_sx id; cur_seed := seed
         | _ -> failwith "case")
    | "iter" ->
        let items = Sexp.args sx in
        let one name = match Sexp.field_exn name items with [x] -> x | _ -> failwith name in
        let sec name = match flat_stack (one name) with Some l -> List.rev l | None -> [] in
        let segs = sec "top" @ sec "mid" @ sec "base" @ sec "clean" in
        let ll = (match one "ll" with
            | Sexp.A "none" -> None
            | x -> let fsegs = (match flat_stack x with Some l -> List.rev l | None -> []) in
              Some (List.filter_map (fun (k, v) -> match v with Some b -> Some (k, b) | None -> None)
                      (iter_list fsegs [] (sget fm0 fsegs no_below)))) in
        let bound name = match one name with Sexp.A "nil" -> None | Sexp.A a -> Some (bytes_of_atom a) | _ -> failwith name in
        let start = bound "start" and end_ = bound "end" in
        let max_tries = nat_of_int (int_of_sx (one "maxtries")) in
        let incl = bool_of_sx (one "incl") in
        let prog = List.map (function
            | Sexp.L [Sexp.A "next"] -> CNext
            | Sexp.L [Sexp.A "seek"; Sexp.A x] -> CSeek (bytes_of_atom x)
            | Sexp.L [Sexp.A "cur"] -> CCurrent
            | s -> failwith ("call: " ^ Sexp.to_string s)) (Sexp.field_exn "prog" items) in
        let impl = List.map (function
            | Sexp.A "ok" -> ROk
            | Sexp.A "done" -> RDone
            | Sexp.A "deleted" -> RDeleted
            | Sexp.L [Sexp.A k; Sexp.A v] -> RCur (bytes_of_atom k, value_of_atom v)
            | s -> failwith ("result: " ^ Sexp.to_string s)) (Sexp.field_exn "results" items) in
        let model = run_iter fm0 max_tries incl segs ll start end_ prog in
        let cfg = { c_segs = segs; c_ll = ll; c_start = start; c_end = end_; c_incl = incl; c_tries = max_tries } in
        let spec = if incl then run_spec_incl_naive fm0 cfg prog else run_spec fm0 cfg prog in
        let live = live_range fm0 cfg in
        let kinds = (if model <> impl then ["model:iterator"] else []) @ (if spec <> impl then ["spec:iterator"] else []) in
        let has_seek = List.exists (function CSeek _ -> true | _ -> false) prog in
        let nt = if List.length live >= 2 && has_seek then 1 else 0 in
        let show l = String.concat " " (List.map (function
            | ROk -> "ok" | RDone -> "done" | RDeleted -> "deleted"
            | RCur (k, v) -> "(" ^ atom_of_bytes k ^ " " ^ atom_of_value v ^ ")") l) in
        if kinds = [] then Printf.printf "CASE %d seed=%s AGREE steps=%d nontrivial=%d\n" !cur_id !cur_seed (List.length prog) nt
        else begin
          Printf.printf "MISMATCH case=%d seed=%s step=0 label=iter kinds=%s\n" !cur_id !cur_seed (String.concat "," kinds);
          Printf.printf "  impl =%s\n  model=%s\n  spec =%s\n  %s\n" (show impl) (show model) (show spec) (String.sub line 0 (min 900 (String.length line)));
          Printf.printf "CASE %d seed=%s DISAGREE steps=%d nontrivial=%d\n" !cur_id !cur_seed (List.length prog) nt
        end
    | "deep" ->
        (match Sexp.args sx with
         | Sexp.A "ok" :: _ -> Printf.printf "CASE %d seed=%s AGREE steps=1 nontrivial=1\n" !cur_id !cur_seed
         | _ ->
             Printf.printf "MISMATCH case=%d seed=%s step=0 label=iter kinds=spec:iterator-crash\n  %s\n" !cur_id !cur_seed
               (String.sub line 0 (min 900 (String.length line)));
             Printf.printf "CASE %d seed=%s DISAGREE steps=1 nontrivial=1\n" !cur_id !cur_seed)
    | _ -> () in
  List.iter (fun f ->
      let ic = open_in f in
      (try while true do
           let line = input_line ic in
           if String.length line > 0 then
             (try handle line with Failure m -> Printf.printf "DRIVER-ERROR case=%d seed=%s %s\n" !cur_id !cur_seed m)
         done with End_of_file -> ());
      close_in ic) files
