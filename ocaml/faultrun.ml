(* Fault-injection verdicts (C06): the director reports, per injected failure,
   what it observed; the model's theorems say what must hold for every failure
   pattern: nothing lost or corrupt, success means served, failures surfaced,
   catch-up once operations succeed again, reopen serves what was exposed. *)
open Model
open Conv

let () =
  let files = List.tl (Array.to_list Sys.argv) in
  let cur_id = ref 0 and cur_seed = ref "" in
  let handle line =
    let sx = Sexp.parse line in
    match Sexp.head sx with
    | "case" ->
        (match Sexp.args sx with
         | id :: Sexp.A seed :: _ -> cur_id := int_of_sx id; cur_seed := seed
         | _ -> failwith "case")
    | "fault" ->
        let items = Sexp.args sx in
        let geti name = match Sexp.field name items with Some (n :: _) -> int_of_sx n | _ -> 0 in
        let kind = match Sexp.field "kind" items with Some [Sexp.A k] -> k | _ -> "?" in
        let problems = geti "problems" and surfaced = geti "surfaced" and triggered = geti "triggered" in
        let caughtup = geti "caughtup" <> 0 in
        let (reo, total) = match Sexp.field "reopen" items with Some [a; b] -> (int_of_sx a, int_of_sx b) | _ -> (-1, 0) in
        let kinds = ref [] in
        let add k = kinds := k :: !kinds in
        if problems > 0 then add "spec:fault-lost-or-corrupt";
        (* the model: a failing operation of a round ends it with an error (failure_is_surfaced_and_harmless);
           Stat failures outside the round's own operations (size statistics) are not operations of the model *)
        if triggered > 0 && surfaced = 0 && kind <> "stat" then add "model:unsurfaced-failure";
        if not caughtup then add "spec:never-caught-up";
        if caughtup && reo <> total then add "spec:reopen-after-faults";
        (* the model's own verdict for the no-failure retry *)
        let o = run_round (fun _ -> false) RFull in
        if not o.served_new || o.error then add "model:retry";
        let nt = if triggered > 0 then 1 else 0 in
        if !kinds = [] then Printf.printf "CASE %d seed=%s AGREE steps=1 nontrivial=%d\n" !cur_id !cur_seed nt
        else begin
          Printf.printf "MISMATCH case=%d seed=%s step=0 label=fault kinds=%s\n" !cur_id !cur_seed (String.concat "," (List.rev !kinds));
          Printf.printf "  %s\n" (String.sub line 0 (min 900 (String.length line)));
          Printf.printf "CASE %d seed=%s DISAGREE steps=1 nontrivial=%d\n" !cur_id !cur_seed nt
        end
    | _ -> () in
  List.iter (fun f ->
      let ic = open_in f in
      (try while true do
           let line = input_line ic in
           if String.length line > 0 then
             (try handle line with Failure m -> Printf.printf "DRIVER-ERROR case=%d seed=%s %s\n" !cur_id !cur_seed m)
         done with End_of_file -> ());
      close_in ic) files
