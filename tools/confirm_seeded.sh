#!/bin/bash
# confirm_seeded.sh <worktree> <mutation-dir> : confirm in a scratch worktree that a seeded change
#  (1) applies and builds, (2) demo passes without it, (3) demo fails with it, (4) existing suite passes with it.
# Prints one summary line; details in <mutation-dir>/confirm.log
export GOFLAGS=-mod=mod GOPROXY=off GOSUMDB=off GOTOOLCHAIN=local
WT=$1; M=$2; LOG=$M/confirm.log
cd "$WT" || exit 2
git checkout -- . 2>/dev/null; rm -f zz_demo_test.go
TEST=$(grep -oE '^func (Test[A-Za-z0-9_]+)' "$M/demo_test.go" | awk '{print $2}' | paste -sd'|')
{
echo "== demo without patch"; cp "$M/demo_test.go" zz_demo_test.go
go test -vet=off -count=1 -timeout 10m -run "^($TEST)\$" . ; R0=$?
echo "== apply"; git apply "$M/patch.diff"; RA=$?
echo "== build"; go build $(go list ./... | grep -v /out) ; RB=$?
echo "== demo with patch"; go test -vet=off -count=1 -timeout 10m -run "^($TEST)\$" . ; R1=$?
rm -f zz_demo_test.go
echo "== suite with patch"; FLAKY=""; go test -vet=off -count=1 -timeout 25m $(go list ./... | grep -v /out) ; RS=$?
if [ $RS -ne 0 ]; then
  # tests of the existing suite that failed: rerun them alone (timing-based tests of the unmodified
  # suite fail under load: Test_IdleCompactionThrottle, TestStoreCollHistograms, TestStoreCrashRecovery)
  FAILED=$(grep -oE '^--- FAIL: (Test[A-Za-z0-9_]+)' "$LOG" | awk '{print $3}' | grep -v -E "^($TEST)\$" | sort -u | paste -sd'|')
  if [ -n "$FAILED" ] && ! grep -q "panic: test timed out" "$LOG"; then
    echo "== rerun of the failed suite tests alone: $FAILED"
    go test -vet=off -count=2 -timeout 20m -run "^($FAILED)\$" . ; RS2=$?
    if [ $RS2 -eq 0 ]; then RS=0; FLAKY="(flaky under load: $FAILED)"; fi
  fi
fi
git checkout -- .
} > "$LOG" 2>&1
echo "$M tests=$TEST demo_clean_rc=$R0 apply_rc=$RA build_rc=$RB demo_patched_rc=$R1 suite_rc=$RS $FLAKY"
