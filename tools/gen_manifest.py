#!/usr/bin/env python3
"""Regenerates /verif/MANIFEST.json from the table below (kept in one place so that the
not_applicable list is always the complement of the claimed checks)."""
import json, os, subprocess
VERIF = os.path.dirname(os.path.dirname(os.path.abspath(__file__)))
NOTE = ("Trusted: Coq 8.16.1 kernel; no axioms (Print Assumptions of every property theorem: Closed under the global "
        "context); extraction (ExtrOcamlBasic only) and the OCaml/Go harness; the correspondence is differential testing "
        "at step granularity and bounds the tie between model and code; merge operator total/deterministic; sync "
        "primitives, files and mmap are modelled, not verified.")
CLAIMED = {
 "C01": ("proof", "For every label sequence of the collection model (any number of batches, any placement of merger ingest/swap/hand-over, persister begin/publish/fail, legal lower-level updates incl. every compaction splice point, CachePersisted on/off) a snapshot reads exactly the reference map folded over the executed batches (C01_snapshot_reads_reference; invariant by induction over labels, no bound on sizes). Tie: the extracted model and the real collection (background goroutines parked at gates) run the same labels in lock step; every section, the lower level, the cache flag and all reads are compared after each label, for flat and child-collection histories; reads are also compared with the reference directly.", "4 (C01)",
         "Coq proof: invariant by induction over labels; tie: lock-step differential correspondence of the extracted model"),
 "C02": ("proof", "Snapshots are immutable values in the model and the cached snapshot is proved never stale (C02_cached_snapshot_sound, C02_snapshot_frozen, for every suffix of labels). The implementation side - handles staying readable - is tied by holding up to three snapshots (with their child snapshots) open across the rest of each case and re-reading them fully after every later label, across persistence, compaction, close and reopen.", "4 (C02)",
         "Coq proof: snapshot values + cache-soundness invariant; tie: re-read of open handles after every label"),
 "C04": ("proof", "Close at any point leaves the reference content after a prefix of the batches (C04_close_leaves_prefix, from the ghost prefix invariant a<=b<=d), caught-up persistence leaves everything (C04_caught_up_is_complete), any number of cycles compose (C04_cycles). Tie: lock-step with close/reopen labels at random points; the reopened content is compared with the model's store and with the prefix oracle; child collections included.", "4 (C04)",
         "Coq proof: prefix invariant + cycles; tie: lock-step correspondence with close/reopen labels and a prefix oracle"),
 "C05": ("proof", "Byte-exact model of the backward footer scan (page-aligned, magic x2, version, length, end magic x2, offset and length cross-checks; fuel proved sufficient). Theorems for files of any number of rounds and any page size >= 20: a complete file yields its last footer (C05_complete_file_finds_last_footer, multi-page footers included); ANY bytes after the last complete footer - partial segments, torn footer, any subset of its pages - are ignored (C05_anything_after_the_last_footer_is_ignored, C05_any_cut_of_the_next_round); the pre-repair scan is refuted for every cut (C05_refuted_pre_fix_torn_footer_is_an_error). Which footer is found determines the served prefix (C04). Tie: crash images enumerated from recorded file-operation traces per the crash model are reopened by the real code and the same bytes scanned by the model; chosen file, footer offset and prefix length are compared. Hypothesis no_fake_footer (no page-aligned data offset is itself accepted as a complete footer) is a trusted assumption about user data. Partial: what a real kernel/disk does beyond the stated crash model is not modelled. Known finding F5 listed.", "4 (C05)",
         "Coq proof: footer-scan theorems over arbitrary files; tie: crash-image enumeration on recorded traces, same bytes to model and code"),
 "C07": ("proof", "Compaction at every splice point (0 = full) preserves every read, for the root and for every child node (C07_compaction_keeps_content, C07_compaction_keeps_child_content); a full compaction yields one strictly ascending segment without tombstones (for operators that never return nil). Tie: the store footer after every persistence round is compared segment by segment with the model's for all compaction concerns and level parameters; the splice point is taken from the implementation and checked legal. File reclamation is covered under C15.", "4 (C07)",
         "Coq proof: merge_range satisfies merged_ok at every splice point; tie: lock-step on the store footer"),
 "C08": ("proof", "Reads equal the left fold of an arbitrary (non-commutative) operator over the batch history for every schedule and operand placement (C08_reads_fold_in_order); persistence and compaction at any splice point keep the fold (C08_store_keeps_fold). Lock-step correspondence with an order-sensitive operator and Merge-heavy batches over all lower-level kinds and child collections.", "4 (C08)",
         "Coq proof: merge_range satisfies merged_ok for any operator; tie: lock-step correspondence, order-sensitive operator"),
 "C10": ("proof", "Collection.Get equals Snapshot.Get on every reachable state (C10_collection_get_agrees); the pre-repair section-wise lookup is refuted by a computed witness. All three read paths are read for every universe key at every label and compared.", "4 (C10)",
         "Coq proof: Collection.Get = Snapshot.Get on reachable states; tie: three read paths compared at every label"),
 "C11": ("proof", "Per-node theorems of the tree model: child operations never add to the parent's segments and a child-only batch leaves every parent read unchanged; merging, persisting, compacting (any splice point) and reopening keep every node's reads, child names and incarnation bookkeeping. The history-level statements (lifecycle, recreate-starts-empty, atomicity with the batch, survival through persistence/compaction/reopen) are decided by the lock-step correspondence of the tree model plus comparison of every path's reads with a reference tree; partial on the proof side (no end-to-end invariant over child histories yet).", "4 (C11)",
         "Coq proof (per-node view preservation, parent isolation) + lock-step correspondence over child trees against a reference tree"),
 "C12": ("proof", "Footer-chain model of a data file: after an append round the walk back from the new current footer is the previous current footer followed by the old walk (C12_walk_after_append; by induction every round since the last compaction, newest first, then nil), compactions cut the chain, older footers are immutable, a revert appends an exact copy of the target that becomes current with the history still walkable behind it (C12_revert_is_exact) and later rounds build on it (C12_append_after_revert_builds_on_target). Tie: lock-step over random programs of rounds / walks / reverts / reopens comparing footer segment lists, offset chains and the content of every previous snapshot. Child collections inside revert targets are not yet exercised by this family.", "4 (C12)",
         "Coq proof: footer-chain model; tie: lock-step over previous/revert programs"),
 "C13": ("proof", "The documented write-back protocol yields a legal lower-level update (C13_protocol_legal); overlay, drained, in-order (prefix) and re-offer-after-failure theorems for every schedule and failure pattern. Lock-step correspondence with a map-backed lower level driven by the protocol, with injected failures.", "4 (C13)",
         "Coq proof: protocol legality + prefix invariant; tie: lock-step correspondence with a map-backed lower level"),
 "C14": ("proof", "For every ascending key list, every quota / minimum-key-bytes setting (hence every hop and every truncated index) and every probe, the index window contains the key's position and its lower bound, and point lookups and range starts through the index equal the linear specification and the un-indexed search (C14_window_contains_key, C14_point_lookup_independent, C14_range_start_independent, C14_unindexed_search_correct; fuel sufficiency proved, no bound on sizes). Tie: function-level correspondence through verif exports (index shape, window, findKeyPos, findStartKeyInclusivePos) and API-level agreement of one directory opened under seven index settings.", "4 (C14)",
         "Coq proof: window/lookup theorems for every hop and truncation; tie: function-level and API-level correspondence"),
 "C17": ("proof", "Lock-set discipline implies that any two conflicting accesses to a covered location are ordered by happens-before, hence no data race, for arbitrary traces with any number of threads and locks (C17_discipline_orders_conflicts, C17_discipline_implies_race_freedom). The access table - every read/write of the lock-protected fields of `collection` and `Store` with the justification found for it - is REGENERATED FROM /repo ON EVERY RUN by the lockscan translator and checked inside Coq (table_ok by vm_compute). Partial and narrow: the link from a justification label to `disciplined` is by inspection of lockscan's rules; copy-on-write publication of segment stacks, the deferred-sort ticket protocol, atomics on stats, histograms and the mmap layer are not covered. When the table stops checking, the concurrent workloads run under the race detector only to attach a replay.", "4 (C17)",
         "Coq proof (lock-set discipline => DRF) over an access table regenerated from source by a translator on every run"),
 "C18": ("proof", "For every directory state (any number of data files, incomplete newer files) a read-only open emits no create/write/remove effect and opens every file read-only (C18_readonly_open_never_mutates), persistence and compaction under ReadOnly do nothing (C18_readonly_persist_never_mutates), the newest file with a valid footer is served (C18_serves_newest_valid), and a read-write open removes only other data files. Tie: the model's openStore is compared with the recorded OpenFile calls and unlinks of the implementation on directory states produced by real runs and crash-like edits; directory listing and SHA-256 of every file before/after; served content.", "4 (C18)",
         "Coq proof: effect model of openStore/persist under ReadOnly; tie: recorded file operations + directory hashes"),
 "C19": ("proof", "The op/keyLen/valLen word round-trips exactly within the documented limits, and the ErrKeyTooLarge/ErrValueTooLarge guard is exactly the non-aliasing condition (C19_word_roundtrips_within_limits, C19_limit_guard_is_exact, C19_oversize_would_alias, with uint64 wrap-around modelled); a persisted segment loads back bit-exactly for arbitrary byte strings, the rest of the file being arbitrary (C19_persisted_segment_roundtrips); page alignment lemmas. Ordering is bytes.Compare = bcmp throughout the models. Alloc-built batches and DeferredSort/CachePersisted equivalence are covered by the lock-step runs (C01 theorem instantiated at both settings). Tie: function-level words and alignments, API-level limits, byte-level parse of real segment files by the model, lock-step runs with Alloc batches.", "4 (C19)",
         "Coq proof: codec and segment round-trip theorems; tie: function-, byte- and API-level correspondence"),
 "C20": ("proof", "Zero dirty segments imply the lower level equals the reference (C20_zero_gauges_mean_persisted), for every schedule. Gauges are compared with the model at every label and, whenever they are zero, the store's own snapshot with the reference tree (child collections included). Known finding F10b (existence-only batches) is listed.", "4 (C20)",
         "Coq proof: zero gauges => lower level = reference; tie: gauges and store content compared at every label"),
}
PENDING = "machinery for this property is still being built in this session (theorem + tie not yet registered); see DESIGN.md section 4"

def main():
    extra = os.path.join(VERIF, "tools", "manifest_extra.json")
    if os.path.exists(extra):
        for k, v in json.load(open(extra)).items():
            CLAIMED[k] = tuple(v)
    checks = []
    for pid in sorted(CLAIMED):
        cat, text, ref, tech = CLAIMED[pid]
        checks.append(dict(property_id=pid, quick_cmd="bin/check %s --tier quick" % pid,
                           thorough_cmd="bin/check %s --tier thorough" % pid,
                           evidence_file="/verif/evidence/%s.json" % pid,
                           replay_cmd_template="bin/check %s --replay {path}" % pid, engine="coq-model+lockstep",
                           level_claimed=dict(category=cat, text=text, design_ref="DESIGN.md section " + ref),
                           level_note=NOTE, technique=tech))
    allp = ["C%02d" % i for i in range(1, 21)]
    na = [dict(property_id=p, reason=PENDING) for p in allp if p not in CLAIMED]
    hooks = subprocess.run(["git", "-C", "/repo", "log", "--format=%h", "--grep=^verif:"], stdout=subprocess.PIPE).stdout.decode().split()
    m = dict(version=1, setup_cmd="bin/setup",
             hooks=dict(guard="verif", enable="go build -tags verif (the harness module replaces github.com/couchbase/moss with /repo)",
                        baseline_off_cmd="cd /repo && go test -vet=off -count=1 -timeout 25m ./...",
                        source_commits=hooks[::-1], add_only=True),
             engines=[dict(name="coq-model+lockstep", path="/verif/coq + /verif/ocaml + /verif/harness",
                           serves_properties=sorted(CLAIMED),
                           kind_free_text="Gallina model with kernel-checked theorems; extracted to OCaml and run in lock step with the gated implementation")],
             checks=checks, notes="See DESIGN.md. Fixed defects and known findings: known_findings.jsonl.", not_applicable=na)
    json.dump(m, open(os.path.join(VERIF, "MANIFEST.json"), "w"), indent=1)
    print("claimed:", " ".join(sorted(CLAIMED)), "| not claimed:", " ".join(x["property_id"] for x in na))

if __name__ == "__main__":
    main()
