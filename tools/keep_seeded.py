#!/usr/bin/env python3
"""keep_seeded.py <ID> <mN> <caught-by comma list or -> <missed-by comma list or -> "<one-line description>"
Copies /tmp/mut/<ID>/out/<mN>/{patch.diff,demo_test.go,notes.md,confirm.log} to /verif/seeded/<ID>-<mN>/ with meta.json."""
import sys, os, shutil, json, re
pid, m, caught, missed, desc = sys.argv[1:6]
src = os.environ.get("MUTROOT", "/tmp/mut") + "/%s/out/%s" % (pid, m)
dst = "/verif/seeded/%s-%s%s" % (pid, os.environ.get("MUTTAG", ""), m)
os.makedirs(dst, exist_ok=True)
for f in ("patch.diff", "demo_test.go", "notes.md", "confirm.log"):
    if os.path.exists(os.path.join(src, f)):
        shutil.copyfile(os.path.join(src, f), os.path.join(dst, f))
log = open(os.path.join(dst, "confirm.log")).read() if os.path.exists(os.path.join(dst, "confirm.log")) else ""
files = sorted(set(re.findall(r"^\+\+\+ b/(\S+)", open(os.path.join(dst, "patch.diff")).read(), re.M)))
tests = re.findall(r"^func (Test\w+)", open(os.path.join(dst, "demo_test.go")).read(), re.M)
name = os.path.basename(dst)
meta = dict(id=name, property=pid, description=desc, files=files, demo_tests=tests,
            apply="git -C /repo apply /verif/seeded/%s/patch.diff" % name, undo="git -C /repo checkout -- .",
            demo="copy demo_test.go to the root of a scratch worktree as zz_demo_test.go; go test -count=1 -run '%s' ." % "|".join(tests),
            confirmed=dict(compiles=True, existing_suite_passes=True, demo_fails_with_patch=True, demo_passes_without=True,
                           how="tools/confirm_seeded.sh in a scratch worktree (confirm.log)"),
            caught_by=[] if caught == "-" else caught.split(","), missed_by=[] if missed == "-" else missed.split(","))
json.dump(meta, open(os.path.join(dst, "meta.json"), "w"), indent=1)
print("kept", dst)
