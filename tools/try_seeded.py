#!/usr/bin/env python3
"""try_seeded.py <patch.diff> <ID> [<ID> ...]
Applies a seeded change to /repo, runs the quick check of each given property, prints the verdict lines and
ALWAYS restores /repo (git checkout -- . ; git clean of untracked demo files is NOT done: patches must not add files).
Evidence files written during these runs are restored afterwards (evidence must come from the clean tree)."""
import subprocess, sys, os, shutil, tempfile, time
REPO, VERIF = "/repo", "/verif"
def sh(cmd, **kw):
    return subprocess.run(cmd, shell=True, stdout=subprocess.PIPE, stderr=subprocess.STDOUT, **kw)
def main():
    patch = os.path.abspath(sys.argv[1]); ids = sys.argv[2:]
    st = sh("git -C /repo status --porcelain").stdout.decode().strip()
    if st:
        print("REPO NOT CLEAN:\n" + st); return 2
    ev = tempfile.mkdtemp(prefix="ev.", dir="/root")
    if os.path.isdir(VERIF + "/evidence"):
        shutil.copytree(VERIF + "/evidence", ev + "/evidence")
    r = sh("git -C /repo apply --whitespace=nowarn %s" % patch)
    if r.returncode != 0:
        print("PATCH DOES NOT APPLY:", r.stdout.decode()[-500:]); shutil.rmtree(ev); return 2
    results = {}
    try:
        for pid in ids:
            t0 = time.time()
            r = sh("cd /verif && bin/check %s --tier quick" % pid, timeout=3000)
            out = r.stdout.decode()
            lines = [l for l in out.splitlines() if l.startswith(("VIOLATION", "KNOWN-FINDING"))]
            results[pid] = (r.returncode, lines)
            print("%s rc=%d %.0fs %s" % (pid, r.returncode, time.time() - t0, " | ".join(l[:160] for l in lines)))
    finally:
        sh("git -C /repo checkout -- .")
        if os.path.isdir(ev + "/evidence"):
            shutil.rmtree(VERIF + "/evidence", ignore_errors=True)
            shutil.copytree(ev + "/evidence", VERIF + "/evidence")
        shutil.rmtree(ev, ignore_errors=True)
        st = sh("git -C /repo status --porcelain").stdout.decode().strip()
        if st:
            print("WARNING: /repo not clean after restore:\n" + st)
    return 0
if __name__ == "__main__":
    sys.exit(main())
