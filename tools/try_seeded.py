#!/usr/bin/env python3
"""try_seeded.py <patch.diff> <ID> [<ID> ...]
Runs the quick checks of the given properties against a seeded change WITHOUT touching /repo or /verif:
a scratch git worktree of /repo gets the patch, a scratch copy of /verif (VERIF_REPO pointing at that
worktree) runs the checks.  Both are removed afterwards.  Prints one line per property with the verdict
lines of the check.  (The documented manual route - git -C /repo apply; bin/check; git -C /repo checkout -- .
- gives the same verdicts; this tool exists so that several things can run at once.)"""
import subprocess, sys, os, shutil, tempfile, time
def sh(cmd, **kw):
    return subprocess.run(cmd, shell=True, stdout=subprocess.PIPE, stderr=subprocess.STDOUT, **kw)
def main():
    patch = os.path.abspath(sys.argv[1]); ids = sys.argv[2:]
    base = tempfile.mkdtemp(prefix="seedrun.", dir="/tmp")
    repo, verif = base + "/repo", base + "/verif"
    try:
        r = sh("git -C /repo worktree add -q --detach %s HEAD" % repo)
        if r.returncode != 0:
            print("cannot create worktree:", r.stdout.decode()[-300:]); return 2
        r = sh("git -C %s apply --whitespace=nowarn %s" % (repo, patch))
        if r.returncode != 0:
            print("PATCH DOES NOT APPLY:", r.stdout.decode()[-500:]); return 2
        sh("rsync -a --exclude .work --exclude replays --exclude .git --exclude evidence /verif/ %s/" % verif)
        env = dict(os.environ, VERIF_REPO=repo)
        for pid in ids:
            t0 = time.time()
            try:
                r = sh("cd %s && bin/check %s --tier quick" % (verif, pid), timeout=2400, env=env)
            except subprocess.TimeoutExpired:
                print("%s rc=124 check did not finish within 40 min" % pid)
                continue
            out = r.stdout.decode()
            lines = [l.replace(verif, "<scratch>") for l in out.splitlines() if l.startswith(("VIOLATION", "KNOWN-FINDING"))]
            print("%s rc=%d %.0fs %s" % (pid, r.returncode, time.time() - t0, " | ".join(l[:160] for l in lines)))
            sys.stdout.flush()
    finally:
        sh("git -C /repo worktree remove --force %s" % repo)
        shutil.rmtree(base, ignore_errors=True)
        sh("git -C /repo worktree prune")
    return 0
if __name__ == "__main__":
    sys.exit(main())
